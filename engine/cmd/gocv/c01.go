package main

// C01: bounded stand-in on the real machine for the clock views as a whole (the
// resolver, the executor and recovery feed setActiveStates; aliasing of the
// active list's backing array is outside the verifier's value model). Family:
// schema A, B (Multi), C (Removes A), D (Adds B, Requires A); every history of up
// to 3 mutations over Add/Remove/Set of each state, Add{A,B} and the checks
// CanAdd/CanRemove; variants: no handlers, a vetoing CEnter, a panicking
// negotiation handler (AEnter), a panicking final handler (BState). Oracle: the
// property's wording. Labelled bounded.

import (
	"bytes"
	"context"
	"encoding/json"
	"fmt"
	"os"
	"os/exec"
	"path/filepath"
	"time"
)

func runBoundedClock(opts *RunOpts, maxLen int) (failing []string, total int, err error) {
	src := `package main

import (
	"context"
	"encoding/json"
	"fmt"
	"os"
	"strings"

	am "` + machinePkg + `"
)

type op struct {
	kind   string
	states am.S
}

func (o op) String() string { return o.kind + "{" + strings.Join(o.states, ",") + "}" }

func main() {
	names := am.S{"A", "B", "C", "D"}
	multi := map[string]bool{"B": true}
	var ops []op
	for _, n := range names {
		ops = append(ops, op{"add", am.S{n}}, op{"remove", am.S{n}}, op{"set", am.S{n}})
	}
	ops = append(ops, op{"add", am.S{"A", "B"}}, op{"canadd", am.S{"D"}}, op{"canremove", am.S{"A"}})
	maxLen := ` + fmt.Sprint(maxLen) + `
	var hist [][]op
	var rec func(prefix []op)
	rec = func(prefix []op) {
		if len(prefix) > 0 {
			hist = append(hist, append([]op{}, prefix...))
		}
		if len(prefix) == maxLen {
			return
		}
		for _, o := range ops {
			rec(append(prefix, o))
		}
	}
	rec(nil)
	var failing []string
	total := 0
	for _, variant := range []string{"plain", "veto-CEnter", "panic-AEnter", "panic-BState"} {
		for _, h := range hist {
			if variant != "plain" && len(h) == maxLen && maxLen > 2 {
				continue // the handler variants run the shorter histories only
			}
			total++
			ctx, cancel := context.WithCancel(context.Background())
			m := am.New(ctx, am.Schema{"A": {}, "B": {Multi: true}, "C": {Remove: am.S{"A"}}, "D": {Add: am.S{"B"}, Require: am.S{"A"}}}, &am.Opts{Id: "verif-c01"})
			neg := map[string]am.HandlerNegotiation{}
			fin := map[string]am.HandlerFinal{}
			faulty := false
			switch variant {
			case "veto-CEnter":
				neg["CEnter"] = func(e *am.Event) bool { return false }
			case "panic-AEnter":
				neg["AEnter"] = func(e *am.Event) bool { panic("boom") }
				faulty = true
			case "panic-BState":
				fin["BState"] = func(e *am.Event) { panic("boom") }
				faulty = true
			}
			if variant != "plain" {
				if _, err := m.HandlersBindMaps(neg, fin); err != nil {
					panic(err)
				}
			}
			bad := ""
			prev := m.Time(nil)
			all := m.StateNames()
			for step, o := range h {
				activeBefore := append(am.S{}, m.ActiveStates(nil)...)
				var res am.Result
				switch o.kind {
				case "add":
					res = m.Add(o.states, nil)
				case "remove":
					res = m.Remove(o.states, nil)
				case "set":
					res = m.Set(o.states, nil)
				case "canadd":
					res = m.CanAdd(o.states, nil)
				case "canremove":
					res = m.CanRemove(o.states, nil)
				}
				now := m.Time(nil)
				act := m.ActiveStates(nil)
				clock := m.Clock(nil)
				where := fmt.Sprintf(" after step %d (%s -> %v)", step+1, o, res)
				seen := map[string]bool{}
				for _, a := range act {
					if seen[a] {
						bad = "ActiveStates lists " + a + " twice" + where
					}
					seen[a] = true
				}
				for i, s := range all {
					t := now[i]
					if am.IsActiveTick(t) != m.Is1(s) || m.Is1(s) != seen[s] || m.Not1(s) == seen[s] {
						bad = fmt.Sprintf("%s: tick %d, Is=%v, in ActiveStates=%v, Not=%v", s, t, m.Is1(s), seen[s], m.Not1(s)) + where
					}
					if m.Tick(s) != t || clock[s] != t {
						bad = fmt.Sprintf("%s: Time %d, Tick %d, Clock %d disagree", s, t, m.Tick(s), clock[s]) + where
					}
					if t < prev[i] {
						bad = fmt.Sprintf("%s: tick went back %d -> %d", s, prev[i], t) + where
					}
					if s == am.StateException {
						continue
					}
					d := t - prev[i]
					if !faulty {
						if d > 2 {
							bad = fmt.Sprintf("%s: tick moved by %d", s, d) + where
						}
						wasActive := false
						for _, a := range activeBefore {
							if a == s {
								wasActive = true
							}
						}
						called := false
						for _, c := range o.states {
							if c == s {
								called = true
							}
						}
						if d == 2 && !(multi[s] && called && wasActive && seen[s] && o.kind != "remove") {
							bad = fmt.Sprintf("%s: tick moved by 2 without being a called, active Multi state", s) + where
						}
						if d == 1 && wasActive == seen[s] {
							bad = fmt.Sprintf("%s: tick moved by 1 without a change of activity", s) + where
						}
						if (res == am.Canceled || o.kind == "canadd" || o.kind == "canremove") && d != 0 {
							bad = fmt.Sprintf("%s: a canceled / check-only transition moved the tick by %d", s, d) + where
						}
					}
				}
				prev = now
				if bad != "" {
					break
				}
			}
			cancel()
			if bad != "" {
				var hs []string
				for _, o := range h {
					hs = append(hs, o.String())
				}
				failing = append(failing, fmt.Sprintf("variant=%s history %s => %s", variant, strings.Join(hs, " "), bad))
			}
		}
	}
	json.NewEncoder(os.Stdout).Encode(map[string]any{"failing": failing, "total": total})
}
`
	tmp, e := os.MkdirTemp("", "gocv-c01b-")
	if e != nil {
		return nil, 0, e
	}
	defer os.RemoveAll(tmp)
	sf := filepath.Join(tmp, "main.go")
	os.WriteFile(sf, []byte(src), 0o644)
	keepStandin("c01_1", src)
	virt := filepath.Join(opts.Repo, "internal", "zz_verif_c01bounded", "main.go")
	ov, _ := json.Marshal(map[string]any{"Replace": map[string]string{virt: sf}})
	ovf := filepath.Join(tmp, "ov.json")
	os.WriteFile(ovf, ov, 0o644)
	ctx, cancel := context.WithTimeout(context.Background(), 20*time.Minute)
	defer cancel()
	cmd := exec.CommandContext(ctx, "go", "run", "-overlay", ovf, "./internal/zz_verif_c01bounded")
	cmd.Dir = opts.Repo
	cmd.Env = append(os.Environ(), "GOFLAGS=-mod=mod", "GOPROXY=off", "AM_LOG=0")
	var outb, errb bytes.Buffer
	cmd.Stdout = &outb
	cmd.Stderr = &errb
	if e := cmd.Run(); e != nil {
		return nil, 0, fmt.Errorf("bounded clock stand-in failed: %v: %s", e, firstLines(errb.String(), 12))
	}
	var raw struct {
		Failing []string
		Total   int
	}
	if e := json.Unmarshal(outb.Bytes(), &raw); e != nil {
		return nil, 0, fmt.Errorf("bounded clock output: %v (%s)", e, firstLines(outb.String(), 3))
	}
	return raw.Failing, raw.Total, nil
}
