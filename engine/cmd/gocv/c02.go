package main

// C02: bounded conformance stand-in on the real machine, for the cases where the
// resolver leaves the verified subset (restructured loops) or where a clause
// needs ghost state the solver cannot reconstruct. It checks the property's own
// wording on every (schema, reachable active set, mutation) of a stated finite
// family. Failing cases that exist on the tree at which the known finding was
// recorded are listed one by one in baseline/c02_bounded_known.txt; any other
// failing case is a violation with its concrete input. Labelled bounded.

import (
	"bytes"
	"context"
	"encoding/json"
	"fmt"
	"os"
	"os/exec"
	"path/filepath"
	"time"
)

func runBoundedRelations(opts *RunOpts, maxRel int) (failing []string, total int, err error) {
	src := `package main

import (
	"context"
	"encoding/json"
	"fmt"
	"os"
	"slices"
	"sort"
	"strings"

	am "` + machinePkg + `"
)

var names = am.S{"A", "B", "C", "D"}

type slot struct{ state, rel, target int } // rel: 0 Add 1 Remove 2 Require

func has(s am.S, x string) bool { return slices.Contains(s, x) }

func main() {
	maxRel := ` + fmt.Sprint(maxRel) + `
	// every (state, relation kind) pair points at none or one other state
	var slots []slot
	for st := 0; st < 4; st++ {
		for rel := 0; rel < 3; rel++ {
			slots = append(slots, slot{st, rel, 0})
		}
	}
	var failing []string
	total := 0
	var chosen []slot
	var rec func(from int)
	check := func() {
		schema := am.Schema{}
		for _, n := range names {
			schema[n] = am.State{}
		}
		var desc []string
		for _, c := range chosen {
			st := schema[names[c.state]]
			tgt := am.S{names[c.target]}
			switch c.rel {
			case 0:
				st.Add = tgt
			case 1:
				st.Remove = tgt
			case 2:
				st.Require = tgt
			}
			schema[names[c.state]] = st
			desc = append(desc, names[c.state]+[]string{"+", "-", "?"}[c.rel]+names[c.target])
		}
		sd := strings.Join(desc, " ")
		// reachable active sets: empty, and after adding each single state; then each single-state Add / Remove and Set of each single state
		type mut struct {
			kind string
			st   string
		}
		var muts []mut
		for _, n := range names {
			muts = append(muts, mut{"add", n}, mut{"remove", n}, mut{"set", n})
		}
		pre := []am.S{nil}
		for _, n := range names {
			pre = append(pre, am.S{n})
		}
		for _, p := range pre {
			for _, mu := range muts {
				ctx, cancel := context.WithCancel(context.Background())
				m := am.New(ctx, schema, &am.Opts{Id: "verif-c02"})
				if len(p) > 0 {
					m.Add(p, nil)
				}
				before := m.ActiveStates(nil)
				if m.IsErr() || m.Err() != nil {
					// the machine rejected the schema (e.g. a Require-Remove conflict): outside the family
					cancel()
					continue
				}
				called := am.S{mu.st}
				switch mu.kind {
				case "add":
					m.Add(called, nil)
				case "remove":
					m.Remove(called, nil)
				case "set":
					m.Set(called, nil)
				}
				after := m.ActiveStates(nil)
				if m.IsErr() || m.Err() != nil {
					cancel()
					continue
				}
				cancel()
				total++
				bad := ""
				// every active state has its Require states active
				for _, x := range after {
					for _, r := range schema[x].Require {
						if !has(after, r) {
							bad = "require: " + x + " active without " + r
						}
					}
				}
				// no active state is Removed by another active state
				for _, x := range after {
					for _, y := range after {
						if x != y && has(schema[y].Remove, x) {
							bad = "remove: " + x + " and " + y + " active, " + y + " removes " + x
						}
					}
				}
				// an activated state has its Add states active unless excluded by Remove or missing a Require
				for _, x := range after {
					if has(before, x) {
						continue
					}
					for _, a := range schema[x].Add {
						if has(after, a) {
							continue
						}
						excluded := false
						for _, y := range append(append(am.S{}, after...), before...) {
							if has(schema[y].Remove, a) {
								excluded = true
							}
						}
						if mu.kind == "remove" && a == mu.st {
							excluded = true
						}
						for _, r := range schema[a].Require {
							if !has(after, r) {
								excluded = true
							}
						}
						if !excluded {
							bad = "add: " + x + " activated without its Add state " + a
						}
					}
				}
				// justification of every change
				reach := map[string]bool{}
				var walk func(s string)
				walk = func(s string) {
					if reach[s] {
						return
					}
					reach[s] = true
					for _, a := range schema[s].Add {
						walk(a)
					}
				}
				if mu.kind != "remove" {
					walk(mu.st)
				}
				for _, s := range before {
					walk(s)
				}
				for _, x := range after {
					if !has(before, x) && !reach[x] {
						bad = "unjustified activation of " + x
					}
				}
				for _, x := range before {
					if has(after, x) {
						continue
					}
					ok := (mu.kind == "remove" && x == mu.st) || (mu.kind == "set" && x != mu.st)
					for _, y := range names {
						if has(schema[y].Remove, x) && (has(after, y) || y == mu.st || reach[y]) {
							ok = true
						}
					}
					for _, r := range schema[x].Require {
						if !has(after, r) {
							ok = true
						}
					}
					if !ok {
						bad = "unjustified deactivation of " + x
					}
				}
				if bad != "" {
					b := append(am.S{}, before...)
					sort.Strings(b)
					failing = append(failing, fmt.Sprintf("[%s] {%s} %s %s => {%s} (%s)", sd, strings.Join(b, ","), mu.kind, mu.st, strings.Join(after, ","), bad))
				}
			}
		}
	}
	rec = func(from int) {
		check()
		if len(chosen) == maxRel {
			return
		}
		for i := from; i < len(slots); i++ {
			for t := 0; t < 4; t++ {
				if t == slots[i].state {
					continue
				}
				chosen = append(chosen, slot{slots[i].state, slots[i].rel, t})
				rec(i + 1)
				chosen = chosen[:len(chosen)-1]
			}
		}
	}
	rec(0)
	json.NewEncoder(os.Stdout).Encode(map[string]any{"failing": failing, "total": total})
}
`
	tmp, e := os.MkdirTemp("", "gocv-c02b-")
	if e != nil {
		return nil, 0, e
	}
	defer os.RemoveAll(tmp)
	sf := filepath.Join(tmp, "main.go")
	os.WriteFile(sf, []byte(src), 0o644)
	keepStandin("c02_1", src)
	virt := filepath.Join(opts.Repo, "internal", "zz_verif_c02bounded", "main.go")
	ov, _ := json.Marshal(map[string]any{"Replace": map[string]string{virt: sf}})
	ovf := filepath.Join(tmp, "ov.json")
	os.WriteFile(ovf, ov, 0o644)
	ctx, cancel := context.WithTimeout(context.Background(), 30*time.Minute)
	defer cancel()
	cmd := exec.CommandContext(ctx, "go", "run", "-overlay", ovf, "./internal/zz_verif_c02bounded")
	cmd.Dir = opts.Repo
	cmd.Env = append(os.Environ(), "GOFLAGS=-mod=mod", "GOPROXY=off", "AM_LOG=0")
	var outb, errb bytes.Buffer
	cmd.Stdout = &outb
	cmd.Stderr = &errb
	if e := cmd.Run(); e != nil {
		return nil, 0, fmt.Errorf("bounded relations stand-in failed: %v: %s", e, firstLines(errb.String(), 12))
	}
	var raw struct {
		Failing []string
		Total   int
	}
	if e := json.Unmarshal(outb.Bytes(), &raw); e != nil {
		return nil, 0, fmt.Errorf("bounded relations output: %v (%s)", e, firstLines(outb.String(), 3))
	}
	return raw.Failing, raw.Total, nil
}
