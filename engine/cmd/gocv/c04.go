package main

// C04: bounded stand-in on the real machine for the drain loop (processQueue is a
// trusted contract: goroutines, CAS hand-over). Family: states A,B,C (C's Enter
// handler vetoes when asked), a top-level mutation followed by mutations issued
// from inside the AState final handler (nested: they must be queued), every
// script of up to 2 nested mutations over Add/Remove of A,B,C. Oracle: the
// property's wording - executed one at a time, nested ones queued not nested, in
// queue-tick order, none lost (idle machine has an empty queue), WhenQueue(tick)
// closed once processed whether accepted or canceled. The same scripts are also
// issued from a tracer's QueueEnd hook (after the drain loop released the queue):
// they must take effect and leave an empty queue. Labelled bounded.

import (
	"bytes"
	"context"
	"encoding/json"
	"fmt"
	"os"
	"os/exec"
	"path/filepath"
	"time"
)

func runBoundedQueue(opts *RunOpts) (failing []string, total int, err error) {
	src := `package main

import (
	"context"
	"encoding/json"
	"fmt"
	"os"
	"strings"

	am "` + machinePkg + `"
)

type tr struct {
	*am.TracerNoOp
	log      *[]string
	queueEnd func()
	onStart  func(tick uint64)
}

func (t *tr) QueueEnd(m am.Api) {
	if t.queueEnd != nil {
		t.queueEnd()
	}
}

func (t *tr) TransitionStart(tx *am.Transition) {
	*t.log = append(*t.log, "start")
	if t.onStart != nil {
		t.onStart(tx.Mutation.QueueTick)
	}
}
func (t *tr) TransitionEnd(tx *am.Transition) {
	*t.log = append(*t.log, fmt.Sprintf("end:%d", tx.Mutation.QueueTick))
}

type op struct {
	add  bool
	name string
}

func (o op) String() string {
	if o.add {
		return "+" + o.name
	}
	return "-" + o.name
}

func main() {
	names := am.S{"A", "B", "C"}
	var ops []op
	for _, n := range names {
		ops = append(ops, op{true, n}, op{false, n})
	}
	var scripts [][]op
	scripts = append(scripts, nil)
	for _, a := range ops {
		scripts = append(scripts, []op{a})
		for _, b := range ops {
			scripts = append(scripts, []op{a, b})
		}
	}
	var failing []string
	total := 0
	for _, where := range []string{"AState", "AState-revsub", "QueueEnd", "Eval"} {
	for _, vetoC := range []bool{false, true} {
		for _, script := range scripts {
			// "-revsub": the WhenQueue subscriptions are taken after all the script's mutations
			// were issued, latest tick first (bindings are kept in subscription order)
			revSub := where == "AState-revsub"
			if revSub && len(script) < 2 {
				continue
			}
			total++
			ctx, cancel := context.WithCancel(context.Background())
			m := am.New(ctx, am.Schema{"A": {}, "B": {}, "C": {}}, &am.Opts{Id: "verif-c04"})
			var log []string
			trc := &tr{TracerNoOp: &am.TracerNoOp{Id: "verif-c04"}, log: &log}
			m.BindTracer(trc)
			var ticks []am.Result
			var waits []<-chan struct{}
			var waitTicks []uint64
			lateOpen := ""
			trc.onStart = func(tick uint64) {
				// a mutation later in the queue starts: every earlier queue tick has been processed
				for i, w := range waits {
					if waitTicks[i] > 0 && tick > waitTicks[i] {
						select {
						case <-w:
						default:
							lateOpen = fmt.Sprintf("WhenQueue(%d) still open when the mutation with queue tick %d starts", waitTicks[i], tick)
						}
					}
				}
			}
			inHandler := false
			nestedRan := false
			neg := map[string]am.HandlerNegotiation{"CEnter": func(e *am.Event) bool { return !vetoC }}
			scriptRan := false
			var expect map[string]bool
			runScript := func() {
				if scriptRan {
					return // the script runs in the first AState / QueueEnd only (a script re-adding A would loop)
				}
				scriptRan = true
				inHandler = true
				before := len(log)
				for _, o := range script {
					var r am.Result
					if o.add {
						r = m.Add1(o.name, nil)
					} else {
						r = m.Remove1(o.name, nil)
					}
					ticks = append(ticks, r)
					if r > am.Queued && !revSub {
						waits = append(waits, m.WhenQueue(r))
						waitTicks = append(waitTicks, uint64(r))
					}
					if (where == "QueueEnd" || where == "Eval") && !(o.add && o.name == "C" && vetoC) {
						expect[o.name] = o.add
					}
				}
				if revSub {
					for i := len(ticks) - 1; i >= 0; i-- {
						if ticks[i] > am.Queued {
							waits = append(waits, m.WhenQueue(ticks[i]))
							waitTicks = append(waitTicks, uint64(ticks[i]))
						}
					}
				}
				if len(log) != before && where != "QueueEnd" && where != "Eval" {
					nestedRan = true
				}
				inHandler = false
			}
			fin := map[string]am.HandlerFinal{}
			if where == "Eval" {
				// issued from inside an Eval func on the idle machine (after Add A): executed or
				// queued and drained when the eval ends - never stranded
				expect = map[string]bool{"A": true}
			} else if where != "QueueEnd" {
				fin["AState"] = func(e *am.Event) { runScript() }
			} else {
				// after the drain loop: the queue is not being processed any more, so a
				// mutation issued here is executed (or queued and drained) - never stranded
				expect = map[string]bool{"A": true}
				trc.queueEnd = runScript
			}
			if _, err := m.HandlersBindMaps(neg, fin); err != nil {
				panic(err)
			}
			m.Add1("A", nil)
			if where == "Eval" {
				m.Eval("verif-c04", runScript, nil)
			}
			_ = inHandler
			bad := ""
			if nestedRan {
				bad = "a mutation issued inside a handler ran nested"
			}
			if m.QueueLen() != 0 {
				bad = fmt.Sprintf("idle machine with %d queued mutations", m.QueueLen())
			}
			// start/end alternate, queue ticks increase
			last := 0
			for i, l := range log {
				if (i%2 == 0) != (l == "start") {
					bad = "transitions interleave: " + strings.Join(log, " ")
				}
				if strings.HasPrefix(l, "end:") {
					var t int
					fmt.Sscanf(l, "end:%d", &t)
					if t > 0 {
						if t <= last {
							bad = "queue ticks out of order: " + strings.Join(log, " ")
						}
						last = t
					}
				}
			}
			// every queued mutation was processed: its WhenQueue channel is closed
			for i, w := range waits {
				select {
				case <-w:
				default:
					bad = fmt.Sprintf("WhenQueue of nested mutation #%d still open on the idle machine (queue tick %d)", i+1, m.QueueTick())
				}
			}
			// number of executed transitions = 1 + queued nested ones (duplicates dropped report Executed)
			queued := 0
			for _, r := range ticks {
				if r > am.Queued {
					queued++
				}
			}
			for n, on := range expect {
				if m.Is1(n) != on {
					bad = fmt.Sprintf("mutation issued after the drain loop (QueueEnd hook / Eval func) had no effect: %s active=%v, want %v (queue length %d)", n, m.Is1(n), on, m.QueueLen())
				}
			}
			if lateOpen != "" {
				bad = lateOpen
			}
			if where != "QueueEnd" && where != "Eval" && len(log)/2 != 1+queued {
				bad = fmt.Sprintf("%d transitions executed for %d queued mutations: %s", len(log)/2, 1+queued, strings.Join(log, " "))
			}
			cancel()
			if bad != "" {
				var sc []string
				for _, o := range script {
					sc = append(sc, o.String())
				}
				failing = append(failing, fmt.Sprintf("vetoC=%v Add A; in %s: %s => %s", vetoC, where, strings.Join(sc, " "), bad))
			}
		}
	}
	}
	json.NewEncoder(os.Stdout).Encode(map[string]any{"failing": failing, "total": total})
}
`
	tmp, e := os.MkdirTemp("", "gocv-c04b-")
	if e != nil {
		return nil, 0, e
	}
	defer os.RemoveAll(tmp)
	sf := filepath.Join(tmp, "main.go")
	os.WriteFile(sf, []byte(src), 0o644)
	keepStandin("c04_1", src)
	virt := filepath.Join(opts.Repo, "internal", "zz_verif_c04bounded", "main.go")
	ov, _ := json.Marshal(map[string]any{"Replace": map[string]string{virt: sf}})
	ovf := filepath.Join(tmp, "ov.json")
	os.WriteFile(ovf, ov, 0o644)
	ctx, cancel := context.WithTimeout(context.Background(), 10*time.Minute)
	defer cancel()
	cmd := exec.CommandContext(ctx, "go", "run", "-overlay", ovf, "./internal/zz_verif_c04bounded")
	cmd.Dir = opts.Repo
	cmd.Env = append(os.Environ(), "GOFLAGS=-mod=mod", "GOPROXY=off", "AM_LOG=0")
	var outb, errb bytes.Buffer
	cmd.Stdout = &outb
	cmd.Stderr = &errb
	if e := cmd.Run(); e != nil {
		return nil, 0, fmt.Errorf("bounded queue stand-in failed: %v: %s", e, firstLines(errb.String(), 12))
	}
	var raw struct {
		Failing []string
		Total   int
	}
	if e := json.Unmarshal(outb.Bytes(), &raw); e != nil {
		return nil, 0, fmt.Errorf("bounded queue output: %v (%s)", e, firstLines(outb.String(), 3))
	}
	return raw.Failing, raw.Total, nil
}
