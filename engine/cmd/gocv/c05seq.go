package main

// C05: bounded stand-in on the real machine for the handler sequence as a whole
// (processHandlers and the emitters' call pattern). Family: states A, B and the
// Multi state M, handlers bound for every handler name (Exit/Enter/End/State of
// each state, self handlers, state-state handlers, AnyEnter, AnyState); every
// history of up to 2 mutations over Add/Remove/Set of each state and Add{A,M}.
// Oracle: the documented sequence, derived from the active sets before and after
// each (accepted, veto-free) transition. Labelled bounded.

import (
	"bytes"
	"context"
	"encoding/json"
	"fmt"
	"os"
	"os/exec"
	"path/filepath"
	"time"
)

func runBoundedHandlerSeq(opts *RunOpts) (failing []string, total int, err error) {
	src := `package main

import (
	"context"
	"encoding/json"
	"fmt"
	"os"
	"slices"
	"sort"
	"strings"

	am "` + machinePkg + `"
)

type op struct {
	kind   string
	states am.S
}

func (o op) String() string { return o.kind + "{" + strings.Join(o.states, ",") + "}" }

// struct-bound handlers: two INSTANCES of one type, each with its own tag and veto
type sh struct {
	tag   string
	log   *[]string
	vetoB bool
}

func (h *sh) AEnter(e *am.Event) bool { *h.log = append(*h.log, h.tag+":AEnter"); return true }
func (h *sh) AState(e *am.Event)      { *h.log = append(*h.log, h.tag+":AState") }
func (h *sh) BEnter(e *am.Event) bool { *h.log = append(*h.log, h.tag+":BEnter"); return !h.vetoB }

func sorted(s []string) []string { c := append([]string{}, s...); sort.Strings(c); return c }

func main() {
	names := am.S{"A", "B", "M"}
	multi := map[string]bool{"M": true}
	var ops []op
	for _, n := range names {
		ops = append(ops, op{"add", am.S{n}}, op{"remove", am.S{n}}, op{"set", am.S{n}})
	}
	ops = append(ops, op{"add", am.S{"A", "M"}})
	var hist [][]op
	for _, a := range ops {
		hist = append(hist, []op{a})
		for _, b := range ops {
			hist = append(hist, []op{a, b})
		}
	}
	var failing []string
	total := 0
	for _, h := range hist {
		total++
		ctx, cancel := context.WithCancel(context.Background())
		m := am.New(ctx, am.Schema{"A": {}, "B": {}, "M": {Multi: true}}, &am.Opts{Id: "verif-c05"})
		var log []string
		neg := map[string]am.HandlerNegotiation{}
		fin := map[string]am.HandlerFinal{}
		n := func(name string) { neg[name] = func(e *am.Event) bool { log = append(log, name); return true } }
		f := func(name string) { fin[name] = func(e *am.Event) { log = append(log, name) } }
		for _, x := range names {
			n(x + "Exit")
			n(x + "Enter")
			n(x + x)
			f(x + "End")
			f(x + "State")
			for _, y := range names {
				if x != y {
					n(x + y)
				}
			}
		}
		n("AnyEnter")
		f("AnyState")
		if _, err := m.HandlersBindMaps(neg, fin); err != nil {
			panic(err)
		}
		bad := ""
		for step, o := range h {
			before := append(am.S{}, m.ActiveStates(nil)...)
			log = nil
			var res am.Result
			switch o.kind {
			case "add":
				res = m.Add(o.states, nil)
			case "remove":
				res = m.Remove(o.states, nil)
			case "set":
				res = m.Set(o.states, nil)
			}
			after := m.ActiveStates(nil)
			if res != am.Executed {
				continue // rejected by the relations or a no-op: no sequence to check
			}
			// documented sequence, phase by phase (the order inside a phase is the resolver's)
			var exits, enters, selfs, ss []string
			for _, x := range before {
				if !slices.Contains(after, x) {
					exits = append(exits, x)
				}
			}
			for _, x := range after {
				if !slices.Contains(before, x) || (multi[x] && slices.Contains(o.states, x) && o.kind != "remove") {
					enters = append(enters, x)
				}
				if slices.Contains(before, x) && o.kind != "remove" {
					selfs = append(selfs, x+x)
				}
				for _, b := range before {
					if b != x {
						ss = append(ss, b+x)
					}
				}
			}
			var want [][]string
			phase := func(names []string, suffix string) {
				var p []string
				for _, x := range names {
					p = append(p, x+suffix)
				}
				want = append(want, sorted(p))
			}
			phase(exits, "Exit")
			phase(enters, "Enter")
			want = append(want, sorted(selfs), sorted(ss), []string{"AnyEnter"})
			phase(exits, "End")
			phase(enters, "State")
			want = append(want, []string{"AnyState"})
			pos := 0
			for pi, p := range want {
				if pos+len(p) > len(log) {
					bad = fmt.Sprintf("step %d (%s): handler log %v ends before phase %d %v", step+1, o, log, pi+1, p)
					break
				}
				got := sorted(log[pos : pos+len(p)])
				if strings.Join(got, ",") != strings.Join(p, ",") {
					bad = fmt.Sprintf("step %d (%s) from {%s} to {%s}: phase %d ran %v, documented %v (full log %v)", step+1, o, strings.Join(before, ","), strings.Join(after, ","), pi+1, got, p, log)
					break
				}
				pos += len(p)
			}
			if bad == "" && pos != len(log) {
				bad = fmt.Sprintf("step %d (%s): extra handler calls %v", step+1, o, log[pos:])
			}
			if bad != "" {
				break
			}
		}
		cancel()
		if bad != "" {
			var hs []string
			for _, o := range h {
				hs = append(hs, o.String())
			}
			failing = append(failing, "history "+strings.Join(hs, " ")+" => "+bad)
		}
	}
	// every binding is called, in binding order, with its own receiver; any veto cancels
	for veto := 0; veto < 3; veto++ {
		total++
		ctx, cancel := context.WithCancel(context.Background())
		m := am.New(ctx, am.Schema{"A": {}, "B": {}}, &am.Opts{Id: "verif-c05"})
		var log []string
		for i, tag := range []string{"h1", "h2"} {
			if _, err := m.HandlersBind(&sh{tag: tag, log: &log, vetoB: veto == i+1}); err != nil {
				panic(err)
			}
		}
		bad := ""
		m.Add1("A", nil)
		if got := strings.Join(log, " "); got != "h1:AEnter h2:AEnter h1:AState h2:AState" {
			bad = "Add A called [" + got + "], expected [h1:AEnter h2:AEnter h1:AState h2:AState]"
		}
		log = nil
		res := m.Add1("B", nil)
		want, wantRes := "h1:BEnter h2:BEnter", am.Executed
		if veto == 1 {
			want, wantRes = "h1:BEnter", am.Canceled
		} else if veto == 2 {
			wantRes = am.Canceled
		}
		if got := strings.Join(log, " "); bad == "" && (got != want || res != wantRes) {
			bad = fmt.Sprintf("Add B called [%s] and returned %v, expected [%s] and %v", got, res, want, wantRes)
		}
		cancel()
		if bad != "" {
			failing = append(failing, fmt.Sprintf("two bindings of one struct type, BEnter veto by binding #%d => %s", veto, bad))
		}
	}
	json.NewEncoder(os.Stdout).Encode(map[string]any{"failing": failing, "total": total})
}
`
	tmp, e := os.MkdirTemp("", "gocv-c05s-")
	if e != nil {
		return nil, 0, e
	}
	defer os.RemoveAll(tmp)
	sf := filepath.Join(tmp, "main.go")
	os.WriteFile(sf, []byte(src), 0o644)
	keepStandin("c05seq_1", src)
	virt := filepath.Join(opts.Repo, "internal", "zz_verif_c05seq", "main.go")
	ov, _ := json.Marshal(map[string]any{"Replace": map[string]string{virt: sf}})
	ovf := filepath.Join(tmp, "ov.json")
	os.WriteFile(ovf, ov, 0o644)
	ctx, cancel := context.WithTimeout(context.Background(), 10*time.Minute)
	defer cancel()
	cmd := exec.CommandContext(ctx, "go", "run", "-overlay", ovf, "./internal/zz_verif_c05seq")
	cmd.Dir = opts.Repo
	cmd.Env = append(os.Environ(), "GOFLAGS=-mod=mod", "GOPROXY=off", "AM_LOG=0")
	var outb, errb bytes.Buffer
	cmd.Stdout = &outb
	cmd.Stderr = &errb
	if e := cmd.Run(); e != nil {
		return nil, 0, fmt.Errorf("bounded handler-sequence stand-in failed: %v: %s", e, firstLines(errb.String(), 12))
	}
	var raw struct {
		Failing []string
		Total   int
	}
	if e := json.Unmarshal(outb.Bytes(), &raw); e != nil {
		return nil, 0, fmt.Errorf("bounded handler-sequence output: %v (%s)", e, firstLines(outb.String(), 3))
	}
	return raw.Failing, raw.Total, nil
}
