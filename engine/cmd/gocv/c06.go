package main

// C06: bounded stand-in on the real machine for the waiting primitives as a
// whole (binding + match counting of When/WhenNot/WhenTime/WhenTicks/WhenQuery,
// state contexts): family = every history of up to 3 single-state Add/Remove
// mutations over A and the Multi state B, with one subscription of every kind
// taken at every position of the history, on a fresh machine and on one whose
// schema was grown with SetSchema first. Oracle: the property's wording - a
// channel is closed after a step iff its condition held when subscribing or at
// the end of some transition since; a state context is canceled iff the tick of
// its state changed. Labelled bounded.

import (
	"bytes"
	"context"
	"encoding/json"
	"fmt"
	"os"
	"os/exec"
	"path/filepath"
	"time"
)

func runBoundedWaiting(opts *RunOpts) (failing []string, total int, err error) {
	src := `package main

import (
	"context"
	"encoding/json"
	"fmt"
	"os"
	"strings"

	am "` + machinePkg + `"
)

type op struct {
	add  bool
	name string
}

func (o op) String() string {
	if o.add {
		return "+" + o.name
	}
	return "-" + o.name
}

type sub struct {
	desc string
	ch   <-chan struct{}
	ctx  context.Context
	cond func(m *am.Machine) bool // holds now
	held bool                      // held at subscription or at the end of a later transition
	query    bool                  // WhenQuery: judged at the end of transitions only, from the next one on
	ctxBound bool                  // subscribed with a context that is canceled right after subscribing
}

// acc counts the accepted, non-check transitions (the only ones that process subscriptions)
type acc struct {
	*am.TracerNoOp
	n *int
}

func (t *acc) TransitionEnd(tx *am.Transition) {
	if tx.IsAccepted.Load() && !tx.Mutation.IsCheck {
		*t.n++
	}
}

func closed(ch <-chan struct{}) bool {
	select {
	case <-ch:
		return true
	default:
		return false
	}
}

func main() {
	var failing []string
	total := 0
	ops := []op{{true, "A"}, {false, "A"}, {true, "B"}, {false, "B"}}
	var hist [][]op
	for _, a := range ops {
		hist = append(hist, []op{a})
		for _, b := range ops {
			hist = append(hist, []op{a, b})
			for _, c := range ops {
				hist = append(hist, []op{a, b, c})
			}
		}
	}
	for _, grown := range []bool{false, true} {
		for _, h := range hist {
			for at := 0; at < len(h); at++ {
				total++
				ctx, cancel := context.WithCancel(context.Background())
				m := am.New(ctx, am.Schema{"A": {}, "B": {Multi: true}}, &am.Opts{Id: "verif-c06"})
				if grown {
					if err := m.SetSchema(am.Schema{"A": {}, "B": {Multi: true}, "C": {}, am.StateException: {Multi: true}}, am.S{"A", "B", am.StateException, "C"}); err != nil {
						panic(err)
					}
				}
				nTx := 0
				m.BindTracer(&acc{TracerNoOp: &am.TracerNoOp{Id: "verif-acc"}, n: &nTx})
				apply := func(o op) {
					if o.add {
						m.Add1(o.name, nil)
					} else {
						m.Remove1(o.name, nil)
					}
				}
				for _, o := range h[:at] {
					apply(o)
				}
				// subscriptions of every kind
				var subs []*sub
				tickA, tickB := m.Tick("A"), m.Tick("B")
				add := func(desc string, ch <-chan struct{}, cond func(m *am.Machine) bool) {
					subs = append(subs, &sub{desc: desc, ch: ch, cond: cond, held: cond(m)})
				}
				add("When(A)", m.When1("A", nil), func(m *am.Machine) bool { return m.Is1("A") })
				add("When(A,B)", m.When(am.S{"A", "B"}, nil), func(m *am.Machine) bool { return m.Is(am.S{"A", "B"}) })
				add("WhenNot(A)", m.WhenNot1("A", nil), func(m *am.Machine) bool { return m.Not1("A") })
				add("WhenNot(A,B)", m.WhenNot(am.S{"A", "B"}, nil), func(m *am.Machine) bool { return m.Not(am.S{"A", "B"}) })
				for _, d := range []uint64{1, 2} {
					d := d
					add(fmt.Sprintf("WhenTime(A,now+%d)", d), m.WhenTime1("A", tickA+d, nil), func(m *am.Machine) bool { return m.Tick("A") >= tickA+d })
					add(fmt.Sprintf("WhenTicks(B,%d)", d), m.WhenTicks("B", int(d), nil), func(m *am.Machine) bool { return m.Tick("B") >= tickB+d })
				}
				add("WhenTime(A,B; now+1,now+2)", m.WhenTime(am.S{"A", "B"}, am.Time{tickA + 1, tickB + 2}, nil), func(m *am.Machine) bool { return m.Tick("A") >= tickA+1 && m.Tick("B") >= tickB+2 })
				// several WhenQuery subscriptions that become true in the same transition, behind one
				// that never matches
				isA := func(c am.Clock) bool { return am.IsActiveTick(c["A"]) }
				subs = append(subs, &sub{desc: "WhenQuery(never)", ch: m.WhenQuery(func(c am.Clock) bool { return false }, nil), cond: func(m *am.Machine) bool { return false }, query: true})
				for i := 1; i <= 3; i++ {
					subs = append(subs, &sub{desc: fmt.Sprintf("WhenQuery(A active) #%d", i), ch: m.WhenQuery(isA, nil), cond: func(m *am.Machine) bool { return m.Is1("A") }, query: true})
				}
				// subscriptions whose context ends right away: released by the next transition
				ctx2, cancel2 := context.WithCancel(context.Background())
				subs = append(subs, &sub{desc: "When(A, ctx)", ch: m.When1("A", ctx2), cond: func(m *am.Machine) bool { return m.Is1("A") }, held: m.Is1("A"), ctxBound: true})
				subs = append(subs, &sub{desc: "WhenNot(A, ctx)", ch: m.WhenNot1("A", ctx2), cond: func(m *am.Machine) bool { return m.Not1("A") }, held: m.Not1("A"), ctxBound: true})
				subs = append(subs, &sub{desc: "WhenTime(A, now+9, ctx)", ch: m.WhenTime1("A", tickA+9, ctx2), cond: func(m *am.Machine) bool { return false }, ctxBound: true})
				subs = append(subs, &sub{desc: "WhenQuery(never, ctx)", ch: m.WhenQuery(func(c am.Clock) bool { return false }, ctx2), cond: func(m *am.Machine) bool { return false }, query: true, ctxBound: true})
				cancel2()
				sctx := m.NewStateCtx("B")
				ctxTick := m.Tick("B")
				wasActive := m.Is1("B")
				bad := ""
				seenTx := nTx
				check := func(step string) {
					ranTx := nTx > seenTx
					seenTx = nTx
					for _, s := range subs {
						if s.cond(m) && (!s.query || ranTx) {
							s.held = true
						}
						if s.ctxBound && ranTx {
							s.held = true // its context ended and a transition has run since
						}
						if closed(s.ch) != s.held && bad == "" {
							bad = fmt.Sprintf("%s after %s: closed=%v although the condition held=%v", s.desc, step, closed(s.ch), s.held)
						}
					}
					if wasActive {
						expired := m.Tick("B") != ctxTick
						if (sctx.Err() != nil) != expired && bad == "" {
							bad = fmt.Sprintf("NewStateCtx(B) after %s: canceled=%v although tick changed=%v", step, sctx.Err() != nil, expired)
						}
					}
				}
				check("subscribing")
				for i, o := range h[at:] {
					apply(o)
					check(fmt.Sprintf("step %d (%s)", at+i+1, o))
				}
				cancel()
				if bad != "" {
					var hs []string
					for _, o := range h {
						hs = append(hs, o.String())
					}
					failing = append(failing, fmt.Sprintf("grownSchema=%v history %s, subscribed before step %d => %s", grown, strings.Join(hs, " "), at+1, bad))
				}
			}
		}
	}
	// a context-bound When over two states that completes normally, then other subscriptions on
	// the same states, then the context ends: the later subscriptions must still be served
	for _, kind := range []string{"When", "WhenNot"} {
		total++
		ctx, cancel := context.WithCancel(context.Background())
		m := am.New(ctx, am.Schema{"A": {}, "B": {Multi: true}, "C": {}}, &am.Opts{Id: "verif-c06"})
		ctx2, cancel2 := context.WithCancel(context.Background())
		bad := ""
		var first <-chan struct{}
		if kind == "When" {
			first = m.When(am.S{"A", "C"}, ctx2)
			m.Add(am.S{"A", "C"}, nil)
		} else {
			m.Add(am.S{"A", "C"}, nil)
			first = m.WhenNot(am.S{"A", "C"}, ctx2)
			m.Remove(am.S{"A", "C"}, nil)
		}
		if !closed(first) {
			bad = kind + "(A,C; ctx) still open although its condition held"
		}
		var laterA, laterC <-chan struct{}
		if kind == "When" {
			laterA, laterC = m.WhenNot1("A", nil), m.WhenNot1("C", nil)
		} else {
			laterA, laterC = m.When1("A", nil), m.When1("C", nil)
		}
		cancel2()
		m.Add1("B", nil) // a transition after the context ended
		if kind == "When" {
			m.Remove(am.S{"A", "C"}, nil)
		} else {
			m.Add(am.S{"A", "C"}, nil)
		}
		if bad == "" && (!closed(laterA) || !closed(laterC)) {
			bad = fmt.Sprintf("subscriptions taken after a completed %s(A,C; ctx): closed A=%v C=%v although both conditions held (the context of the first one had ended in between)", kind, closed(laterA), closed(laterC))
		}
		cancel()
		if bad != "" {
			failing = append(failing, "completed multi-state "+kind+" with a context, later subscriptions on its states => "+bad)
		}
	}
	json.NewEncoder(os.Stdout).Encode(map[string]any{"failing": failing, "total": total})
}
`
	tmp, e := os.MkdirTemp("", "gocv-c06b-")
	if e != nil {
		return nil, 0, e
	}
	defer os.RemoveAll(tmp)
	sf := filepath.Join(tmp, "main.go")
	os.WriteFile(sf, []byte(src), 0o644)
	keepStandin("c06_1", src)
	virt := filepath.Join(opts.Repo, "internal", "zz_verif_c06bounded", "main.go")
	ov, _ := json.Marshal(map[string]any{"Replace": map[string]string{virt: sf}})
	ovf := filepath.Join(tmp, "ov.json")
	os.WriteFile(ovf, ov, 0o644)
	ctx, cancel := context.WithTimeout(context.Background(), 10*time.Minute)
	defer cancel()
	cmd := exec.CommandContext(ctx, "go", "run", "-overlay", ovf, "./internal/zz_verif_c06bounded")
	cmd.Dir = opts.Repo
	cmd.Env = append(os.Environ(), "GOFLAGS=-mod=mod", "GOPROXY=off", "AM_LOG=0")
	var outb, errb bytes.Buffer
	cmd.Stdout = &outb
	cmd.Stderr = &errb
	if e := cmd.Run(); e != nil {
		return nil, 0, fmt.Errorf("bounded waiting stand-in failed: %v: %s", e, firstLines(errb.String(), 12))
	}
	var raw struct {
		Failing []string
		Total   int
	}
	if e := json.Unmarshal(outb.Bytes(), &raw); e != nil {
		return nil, 0, fmt.Errorf("bounded waiting output: %v (%s)", e, firstLines(outb.String(), 3))
	}
	return raw.Failing, raw.Total, nil
}
