package main

// C07 / C03: bounded stand-in on the real machine for the negotiation emitters
// (for when a restructured emitter leaves the verified subset): auto states are
// judged one by one, a manual mutation is all-or-nothing. Family: trigger state
// T, three states X1..X3 (Auto or plain), every veto mask over their Enter
// handlers / their T->Xi state-state handlers. Labelled bounded.

import (
	"bytes"
	"context"
	"encoding/json"
	"fmt"
	"os"
	"os/exec"
	"path/filepath"
	"time"
)

func runBoundedNegotiation(opts *RunOpts) (failing []string, total int, err error) {
	src := `package main

import (
	"context"
	"encoding/json"
	"fmt"
	"os"
	"sort"
	"strings"

	am "` + machinePkg + `"
)

func main() {
	xs := am.S{"X1", "X2", "X3"}
	var failing []string
	total := 0
	for _, auto := range []bool{true, false} {
		for _, kind := range []string{"enter", "statestate", "mixed"} {
			for mask := 0; mask < 8; mask++ {
				for _, order := range [][]int{{0, 1, 2}, {2, 1, 0}, {1, 0, 2}} {
					schema := am.Schema{"T": {}}
					names := am.S{"T"}
					for _, i := range order {
						schema[xs[i]] = am.State{Auto: auto}
						names = append(names, xs[i])
					}
					names = append(names, am.StateException)
					schema[am.StateException] = am.State{Multi: true}
					ctx, cancel := context.WithCancel(context.Background())
					m := am.New(ctx, schema, &am.Opts{Id: "verif-c07"})
					if err := m.VerifyStates(names); err != nil {
						panic(err)
					}
					neg := map[string]am.HandlerNegotiation{}
					for i, x := range xs {
						veto := mask&(1<<i) != 0
						k := kind
						if kind == "mixed" {
							k = []string{"enter", "statestate"}[i%2]
						}
						h := func(e *am.Event) bool { return !veto }
						if k == "enter" {
							neg[x+"Enter"] = h
						} else {
							neg["T"+x] = h
						}
					}
					if _, err := m.HandlersBindMaps(neg, nil); err != nil {
						panic(err)
					}
					var res am.Result
					m.Add1("T", nil)
					if !auto {
						res = m.Add(xs, nil)
					}
					act := m.ActiveStates(nil)
					cancel()
					total++
					want := am.S{"T"}
					if auto {
						for i, x := range xs {
							if mask&(1<<i) == 0 {
								want = append(want, x)
							}
						}
					} else if mask == 0 {
						want = append(want, xs...)
					}
					got := append(am.S{}, act...)
					sort.Strings(got)
					sort.Strings(want)
					bad := ""
					if strings.Join(got, ",") != strings.Join(want, ",") {
						bad = "active {" + strings.Join(got, ",") + "}, expected {" + strings.Join(want, ",") + "}"
					}
					if !auto && ((mask == 0) != (res == am.Executed)) {
						bad += fmt.Sprintf(" result %v", res)
					}
					if bad != "" {
						failing = append(failing, fmt.Sprintf("auto=%v handlers=%s vetoes=%03b order=%v => %s", auto, kind, mask, order, bad))
					}
				}
			}
		}
	}
	// CanAdd answers what Add returns and changes nothing (C03), also with a global AnyEnter veto
	for _, anyVeto := range []bool{false, true} {
		for mask := 0; mask < 8; mask++ {
			total++
			schema := am.Schema{"T": {}, "X1": {}, "X2": {}, "X3": {}}
			ctx, cancel := context.WithCancel(context.Background())
			m := am.New(ctx, schema, &am.Opts{Id: "verif-c03"})
			neg := map[string]am.HandlerNegotiation{"AnyEnter": func(e *am.Event) bool { return !anyVeto }}
			for i, x := range xs {
				veto := mask&(1<<i) != 0
				neg[x+"Enter"] = func(e *am.Event) bool { return !veto }
			}
			if _, err := m.HandlersBindMaps(neg, nil); err != nil {
				panic(err)
			}
			m.Add1("T", nil)
			before := fmt.Sprint(m.Time(nil), m.QueueTick())
			can := m.CanAdd(xs, nil)
			after := fmt.Sprint(m.Time(nil), m.QueueTick())
			res := m.Add(xs, nil)
			cancel()
			bad := ""
			if before != after {
				bad = "CanAdd changed the machine: " + before + " -> " + after
			}
			if can != res {
				bad += fmt.Sprintf(" CanAdd answered %v, Add returned %v", can, res)
			}
			if bad != "" {
				failing = append(failing, fmt.Sprintf("CanAdd vs Add: AnyEnter veto=%v Enter vetoes=%03b => %s", anyVeto, mask, strings.TrimSpace(bad)))
			}
		}
	}
	// the same for states that are ALREADY active (an Add of active states still negotiates:
	// self handlers XiXi), and CanRemove vs Remove with vetoing Exit handlers
	for _, what := range []string{"re-add", "remove", "remove-inactive"} {
		for mask := 0; mask < 8; mask++ {
			total++
			schema := am.Schema{"T": {}, "X1": {}, "X2": {}, "X3": {}}
			ctx, cancel := context.WithCancel(context.Background())
			m := am.New(ctx, schema, &am.Opts{Id: "verif-c03"})
			neg := map[string]am.HandlerNegotiation{}
			for i, x := range xs {
				veto := mask&(1<<i) != 0
				if what == "re-add" {
					neg[x+x] = func(e *am.Event) bool { return !veto }
				} else {
					neg[x+"Exit"] = func(e *am.Event) bool { return !veto }
				}
			}
			if what == "remove-inactive" {
				// removing states that are not active is still a negotiated transition on an idle
				// machine: the global AnyEnter handler (and state-state handlers of the active T) may veto
				anyVeto := mask&1 != 0
				neg["AnyEnter"] = func(e *am.Event) bool { return !anyVeto || !m.Is1("T") }
				neg["TT"] = func(e *am.Event) bool { return mask&2 == 0 }
			}
			if _, err := m.HandlersBindMaps(neg, nil); err != nil {
				panic(err)
			}
			if what == "remove-inactive" {
				m.Add1("T", nil)
			} else {
				m.Add(xs, nil)
			}
			before := fmt.Sprint(m.Time(nil), m.QueueTick())
			var can, res am.Result
			if what == "re-add" {
				can = m.CanAdd(xs, nil)
			} else {
				can = m.CanRemove(xs, nil)
			}
			after := fmt.Sprint(m.Time(nil), m.QueueTick())
			if what == "re-add" {
				res = m.Add(xs, nil)
			} else {
				res = m.Remove(xs, nil)
			}
			cancel()
			bad := ""
			if before != after {
				bad = "the check changed the machine: " + before + " -> " + after
			}
			if can != res {
				bad += fmt.Sprintf(" the check answered %v, the mutation returned %v", can, res)
			}
			if bad != "" {
				failing = append(failing, fmt.Sprintf("Can* vs mutation on active states: %s, veto mask %03b => %s", what, mask, strings.TrimSpace(bad)))
			}
		}
	}
	json.NewEncoder(os.Stdout).Encode(map[string]any{"failing": failing, "total": total})
}
`
	tmp, e := os.MkdirTemp("", "gocv-c07b-")
	if e != nil {
		return nil, 0, e
	}
	defer os.RemoveAll(tmp)
	sf := filepath.Join(tmp, "main.go")
	os.WriteFile(sf, []byte(src), 0o644)
	keepStandin("c07_1", src)
	virt := filepath.Join(opts.Repo, "internal", "zz_verif_c07bounded", "main.go")
	ov, _ := json.Marshal(map[string]any{"Replace": map[string]string{virt: sf}})
	ovf := filepath.Join(tmp, "ov.json")
	os.WriteFile(ovf, ov, 0o644)
	ctx, cancel := context.WithTimeout(context.Background(), 10*time.Minute)
	defer cancel()
	cmd := exec.CommandContext(ctx, "go", "run", "-overlay", ovf, "./internal/zz_verif_c07bounded")
	cmd.Dir = opts.Repo
	cmd.Env = append(os.Environ(), "GOFLAGS=-mod=mod", "GOPROXY=off", "AM_LOG=0")
	var outb, errb bytes.Buffer
	cmd.Stdout = &outb
	cmd.Stderr = &errb
	if e := cmd.Run(); e != nil {
		return nil, 0, fmt.Errorf("bounded negotiation stand-in failed: %v: %s", e, firstLines(errb.String(), 12))
	}
	var raw struct {
		Failing []string
		Total   int
	}
	if e := json.Unmarshal(outb.Bytes(), &raw); e != nil {
		return nil, 0, fmt.Errorf("bounded negotiation output: %v (%s)", e, firstLines(outb.String(), 3))
	}
	return raw.Failing, raw.Total, nil
}
