package main

// C08: bounded stand-in on the real machine for the handler-loop protocol
// (processHandlers / handlerLoop: goroutines, timers, restart - outside the
// verifier). Family: machine with B active, mutation Set{A} (handlers in order
// BExit, AEnter, BEnd, AState), two handler bindings, a fault injected at every
// (handler, binding): panic with an error, panic with a string, stall past
// HandlerTimeout. Oracle: the property's wording. Labelled bounded.

import (
	"bytes"
	"context"
	"encoding/json"
	"fmt"
	"os"
	"os/exec"
	"path/filepath"
	"time"
)

func runBoundedFaults(opts *RunOpts) (failing []string, total int, err error) {
	src := `package main

import (
	"context"
	"encoding/json"
	"errors"
	"fmt"
	"os"
	"sort"
	"strings"
	"sync/atomic"
	"time"

	am "` + machinePkg + `"
)

func main() {
	var failing []string
	total := 0
	handlers := []string{"BExit", "AEnter", "AnyEnter", "BEnd", "AState", "AnyState"}
	for _, hname := range handlers {
		for binding := 0; binding < 2; binding++ {
			faults := []string{"panic-error", "panic-string", "stall"}
			if strings.HasPrefix(hname, "Any") {
				// the global handlers also run for the Exception mutation itself: "-repeat" keeps
				// the fault armed until the call returns (a fault inside the Exception transition)
				faults = append(faults, "panic-error-repeat", "stall-repeat")
			}
			for _, fault := range faults {
				total++
				name := fmt.Sprintf("fault=%s at %s of binding #%d", fault, hname, binding+1)
				runCase := func() string {
				ctx, cancel := context.WithCancel(context.Background())
				m := am.New(ctx, am.Schema{"A": {}, "B": {}, "P": {}}, &am.Opts{
					Id: "verif-c08", HandlerTimeout: 250 * time.Millisecond, HandlerDeadline: 3 * time.Second,
				})
				// the fault is armed for the mutation under test only (the global handlers also
				// run during the set-up and the probe) and fires once, unless "-repeat"
				var armed atomic.Bool
				repeat := strings.HasSuffix(fault, "-repeat")
				inject := func() {
					if repeat {
						if !armed.Load() {
							return
						}
					} else if !armed.CompareAndSwap(true, false) {
						return
					}
					switch strings.TrimSuffix(fault, "-repeat") {
					case "panic-error":
						panic(errors.New("boom-error"))
					case "panic-string":
						panic("boom-string")
					case "stall":
						time.Sleep(700 * time.Millisecond)
					}
				}
				for b := 0; b < 2; b++ {
					neg := map[string]am.HandlerNegotiation{}
					fin := map[string]am.HandlerFinal{}
					for _, h := range handlers {
						h, b := h, b
						if strings.HasSuffix(h, "State") || strings.HasSuffix(h, "End") {
							fin[h] = func(e *am.Event) {
								if h == hname && b == binding {
									inject()
								}
							}
						} else {
							neg[h] = func(e *am.Event) bool {
								if h == hname && b == binding {
									inject()
								}
								return true
							}
						}
					}
					if _, err := m.HandlersBindMaps(neg, fin); err != nil {
						panic(err)
					}
				}
				m.Add1("B", nil)
				before := m.Time(nil)
				armed.Store(true)
				done := make(chan am.Result, 1)
				go func() { done <- m.Set(am.S{"A"}, nil) }()
				bad := ""
				var res am.Result
				select {
				case res = <-done:
				case <-time.After(4 * time.Second):
					bad = "the mutation call did not return within 4s"
				}
				if bad == "" {
					time.Sleep(20 * time.Millisecond)
					armed.Store(false)
				}
				if bad == "" && repeat {
					// repeated faults: the property only promises containment - the call returned,
					// parity holds and the machine lives on
					for i, s := range m.StateNames() {
						if am.IsActiveTick(m.Time(nil)[i]) != m.Is1(s) {
							bad += " tick parity of " + s + " does not match activity"
						}
					}
					pr := make(chan am.Result, 1)
					go func() { pr <- m.Add1("P", nil) }()
					select {
					case r := <-pr:
						if r != am.Executed || !m.Is1("P") {
							bad += fmt.Sprintf(" probe mutation after the fault: %v", r)
						}
					case <-time.After(3 * time.Second):
						bad += " probe mutation after the fault blocked"
					}
				} else if bad == "" {
					act := append(am.S{}, m.ActiveStates(nil)...)
					sort.Strings(act)
					got := strings.Join(act, ",")
					negotiation := hname == "BExit" || hname == "AEnter" || hname == "AnyEnter"
					isPanic := fault != "stall"
					want := ""
					switch {
					case negotiation && isPanic:
						want = "B,Exception"
					case negotiation:
						want = "B"
					case hname == "BEnd" && isPanic:
						want = "B,Exception"
					case hname == "BEnd":
						want = "B"
					case hname == "AnyState" && isPanic:
						want = "A,Exception" // every per-state final handler completed: nothing to roll back
					case hname == "AnyState":
						want = "A"
					case isPanic:
						want = "Exception"
					default:
						want = ""
					}
					if got != want {
						bad = "active {" + got + "}, expected {" + want + "}"
					}
					if negotiation {
						after := m.Time(am.S{"A", "B"})
						if fmt.Sprint(after) != fmt.Sprint(before[:2]) {
							bad += fmt.Sprintf(" ticks of A,B changed by a negotiation fault: %v -> %v", before[:2], after)
						}
					}
					if res != am.Canceled {
						bad += fmt.Sprintf(" result %v, expected canceled", res)
					}
					if isPanic {
						msg := "boom-error"
						if fault == "panic-string" {
							msg = "boom-string"
						}
						if m.Err() == nil || !strings.Contains(m.Err().Error(), msg) {
							bad += fmt.Sprintf(" Err() = %v does not carry the panic message", m.Err())
						}
					} else {
						select {
						case e := <-m.ErrInternal():
							if !errors.Is(e, am.ErrHandlerTimeout) {
								bad += " reported error is not a handler timeout"
							}
						default:
							bad += " the timeout was not reported on ErrInternal"
						}
					}
					// tick parity matches activity
					for i, s := range m.StateNames() {
						if am.IsActiveTick(m.Time(nil)[i]) != m.Is1(s) {
							bad += " tick parity of " + s + " does not match activity"
						}
					}
					// the machine lives on
					pr := make(chan am.Result, 1)
					go func() { pr <- m.Add1("P", nil) }()
					select {
					case r := <-pr:
						if r != am.Executed || !m.Is1("P") {
							bad += fmt.Sprintf(" probe mutation after the fault: %v", r)
						}
					case <-time.After(3 * time.Second):
						bad += " probe mutation after the fault blocked"
					}
				}
				cancel()
				return strings.TrimSpace(bad)
				}
				// a case is reported only if it fails twice in a row (scheduling noise under load)
				if bad := runCase(); bad != "" {
					if bad2 := runCase(); bad2 != "" {
						failing = append(failing, name+" => "+bad2)
					}
				}
			}
		}
	}
	// a handler that overruns HandlerTimeout AND HandlerDeadline is abandoned (a new handler
	// loop is forked); when it finally returns, after the backoff window, nothing more may
	// happen: no further timeout or deadline, mutations keep executing
	for _, hname := range []string{"AEnter", "AState"} {
		total++
		name := "stall past timeout + deadline + backoff at " + hname
		runCase := func() string {
			ctx, cancel := context.WithCancel(context.Background())
			defer cancel()
			m := am.New(ctx, am.Schema{"A": {}, "P": {}, "Q": {}}, &am.Opts{
				Id: "verif-c08", HandlerTimeout: 100 * time.Millisecond,
			})
			// set on the machine: New's option clone drops Opts.HandlerDeadline / HandlerBackoff
			// deadline well above the backoff: the backoff window, not the deadline, decides when
			// mutations are accepted again
			m.HandlerDeadline = 400 * time.Millisecond
			m.HandlerBackoff = 50 * time.Millisecond
			var timeouts atomic.Int32
			m.OnError(func(_ *am.Machine, err error) {
				if errors.Is(err, am.ErrHandlerTimeout) {
					timeouts.Add(1)
				}
			})
			var armed atomic.Bool
			returned := make(chan struct{})
			stall := func() {
				if armed.CompareAndSwap(true, false) {
					time.Sleep(1100 * time.Millisecond)
					close(returned)
				}
			}
			neg := map[string]am.HandlerNegotiation{"AnyEnter": func(e *am.Event) bool { return true }}
			fin := map[string]am.HandlerFinal{"AnyState": func(e *am.Event) {}}
			if hname == "AEnter" {
				neg["AEnter"] = func(e *am.Event) bool { stall(); return true }
			} else {
				fin["AState"] = func(e *am.Event) { stall() }
			}
			if _, err := m.HandlersBindMaps(neg, fin); err != nil {
				panic(err)
			}
			armed.Store(true)
			done := make(chan am.Result, 1)
			go func() { done <- m.Add1("A", nil) }()
			bad := ""
			select {
			case res := <-done:
				if res != am.Canceled {
					bad = fmt.Sprintf("result %v, expected canceled", res)
				}
			case <-time.After(4 * time.Second):
				return "the mutation call did not return within 4s"
			}
			deadline := m.LastHandlerDeadline.Load()
			if deadline == nil {
				bad += " no handler deadline recorded"
			}
			probe := func(state, when string) {
				pr := make(chan am.Result, 1)
				go func() { pr <- m.Add1(state, nil) }()
				select {
				case r := <-pr:
					if r != am.Executed || !m.Is1(state) {
						bad += fmt.Sprintf(" probe mutation %s: %v", when, r)
					}
				case <-time.After(3 * time.Second):
					bad += " probe mutation " + when + " blocked"
				}
			}
			time.Sleep(150 * time.Millisecond)
			probe("P", "after the backoff")
			select {
			case <-returned:
			case <-time.After(3 * time.Second):
				return bad + " the stalled handler never returned"
			}
			time.Sleep(500 * time.Millisecond)
			if got := m.LastHandlerDeadline.Load(); deadline != nil && (got == nil || !got.Equal(*deadline)) {
				bad += " a second handler deadline was hit after the abandoned handler returned"
			}
			if n := timeouts.Load(); n != 1 {
				bad += fmt.Sprintf(" %d handler timeouts reported, expected 1", n)
			}
			probe("Q", "after the abandoned handler returned")
			return strings.TrimSpace(bad)
		}
		if bad := runCase(); bad != "" {
			if bad2 := runCase(); bad2 != "" {
				failing = append(failing, name+" => "+bad2)
			}
		}
	}
	// forked code guarded by PanicToErr / PanicToErrState: the Exception carries the panic's message
	for _, kind := range []string{"PanicToErr", "PanicToErrState"} {
		for _, val := range []string{"error", "string"} {
			total++
			ctx, cancel := context.WithCancel(context.Background())
			m := am.New(ctx, am.Schema{"A": {}, "P": {}}, &am.Opts{Id: "verif-c08"})
			func() {
				if kind == "PanicToErr" {
					defer m.PanicToErr(nil)
				} else {
					defer m.PanicToErrState("A", nil)
				}
				if val == "error" {
					panic(errors.New("boom-forked"))
				}
				panic("boom-forked")
			}()
			bad := ""
			if !m.IsErr() {
				bad = "Exception not active"
			}
			if m.Err() == nil || !strings.Contains(m.Err().Error(), "boom-forked") {
				bad += fmt.Sprintf(" Err() = %v does not carry the panic message", m.Err())
			}
			if m.Add1("P", nil) != am.Executed {
				bad += " probe mutation failed"
			}
			cancel()
			if bad != "" {
				failing = append(failing, fmt.Sprintf("defer m.%s; panic(%s value) => %s", kind, val, strings.TrimSpace(bad)))
			}
		}
	}
	json.NewEncoder(os.Stdout).Encode(map[string]any{"failing": failing, "total": total})
}
`
	tmp, e := os.MkdirTemp("", "gocv-c08b-")
	if e != nil {
		return nil, 0, e
	}
	defer os.RemoveAll(tmp)
	sf := filepath.Join(tmp, "main.go")
	os.WriteFile(sf, []byte(src), 0o644)
	keepStandin("c08_1", src)
	virt := filepath.Join(opts.Repo, "internal", "zz_verif_c08bounded", "main.go")
	ov, _ := json.Marshal(map[string]any{"Replace": map[string]string{virt: sf}})
	ovf := filepath.Join(tmp, "ov.json")
	os.WriteFile(ovf, ov, 0o644)
	ctx, cancel := context.WithTimeout(context.Background(), 10*time.Minute)
	defer cancel()
	cmd := exec.CommandContext(ctx, "go", "run", "-overlay", ovf, "./internal/zz_verif_c08bounded")
	cmd.Dir = opts.Repo
	cmd.Env = append(os.Environ(), "GOFLAGS=-mod=mod", "GOPROXY=off", "AM_LOG=0")
	var outb, errb bytes.Buffer
	cmd.Stdout = &outb
	cmd.Stderr = &errb
	if e := cmd.Run(); e != nil {
		return nil, 0, fmt.Errorf("bounded fault stand-in failed: %v: %s", e, firstLines(errb.String(), 12))
	}
	var raw struct {
		Failing []string
		Total   int
	}
	if e := json.Unmarshal(outb.Bytes(), &raw); e != nil {
		return nil, 0, fmt.Errorf("bounded fault output: %v (%s)", e, firstLines(outb.String(), 3))
	}
	return raw.Failing, raw.Total, nil
}
