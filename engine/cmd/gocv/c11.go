package main

// C11: bounded stand-in for the parts of the resolver that are outside the
// verified subset (graph.TopologicalSort is a recursive closure; sort.SliceStable
// comparators are opaque): the order of the resolved target must be the same in
// every re-execution. Labelled bounded, never counted as discharged.

import (
	"bytes"
	"context"
	"encoding/json"
	"fmt"
	"os"
	"os/exec"
	"path/filepath"
	"time"
)

func runBoundedDeterminism(opts *RunOpts, reps int) ([]BoundedResult, error) {
	src := `package main

import (
	"context"
	"encoding/json"
	"fmt"
	"os"
	"strings"

	am "` + machinePkg + `"
)

type res struct {
	Schema, Group, Violation, Kind string
	States                     int
	Exhausted                  bool
	Bound                      int
}

func main() {
	names := am.S{"A", "B", "C", "D"}
	reps := ` + fmt.Sprint(reps) + `
	r := res{Schema: "all 4-state schemas with at most one Require and one After per state (Add of all four), and T + four Auto states with T removing none/one of them and none/one mutually Removing pair (Add T, Remove T, Set T), and every exclusive group of 2..4 of G1..G4 sharing one Remove/After slice (Add each in turn, Add all; second machine from the same schema value), VerifyStates with a repeated name, and the active order / End handler order after a panicking final handler", Group: "target-order", Kind: "determinism", Bound: reps, Exhausted: true}
	// every state requires / comes after none or one of the others
	choice := func(code int, self int) am.S {
		if code == 0 {
			return nil
		}
		k := code - 1
		if k >= self {
			k++
		}
		return am.S{names[k]}
	}
	for rc := 0; rc < 4*4*4*4 && r.Violation == ""; rc++ {
		for ac := 0; ac < 2 && r.Violation == ""; ac++ {
			schema := am.Schema{}
			c := rc
			for i, n := range names {
				st := am.State{Require: choice(c%4, i)}
				c /= 4
				if ac == 1 {
					st.After = choice((rc/(1+i))%4, i)
				}
				schema[n] = st
			}
			first := ""
			for k := 0; k < reps; k++ {
				ctx, cancel := context.WithCancel(context.Background())
				m := am.New(ctx, schema, &am.Opts{Id: "verif-c11"})
				res := m.Add(names, nil)
				out := fmt.Sprint(res) + " " + strings.Join(m.ActiveStates(nil), ",") + " " + fmt.Sprint(m.Time(nil))
				cancel()
				r.States++
				if k == 0 {
					first = out
				} else if out != first {
					var desc []string
					for _, n := range names {
						desc = append(desc, fmt.Sprintf("%s{Require:%v After:%v}", n, schema[n].Require, schema[n].After))
					}
					r.Violation = "schema " + strings.Join(desc, " ") + ": Add{A,B,C,D} gave [" + first + "] in run 1 and [" + out + "] in run " + fmt.Sprint(k+1)
					break
				}
			}
		}
	}
	// second family: Auto states (the auto mutation's called order feeds the resolver):
	// T removes none or one of four Auto states X1..X4, none or one pair of them Remove each other;
	// history Add T, Remove T, Set T
	xs := am.S{"X1", "X2", "X3", "X4"}
	for blocked := -1; blocked < 4 && r.Violation == ""; blocked++ {
		for p := -1; p < 6 && r.Violation == ""; p++ {
			pairs := [][2]int{{0, 1}, {0, 2}, {0, 3}, {1, 2}, {1, 3}, {2, 3}}
			schema := am.Schema{"T": {}}
			for _, x := range xs {
				schema[x] = am.State{Auto: true}
			}
			if blocked >= 0 {
				schema["T"] = am.State{Remove: am.S{xs[blocked]}}
			}
			if p >= 0 {
				a, b := xs[pairs[p][0]], xs[pairs[p][1]]
				sa, sb := schema[a], schema[b]
				sa.Remove = am.S{b}
				sb.Remove = am.S{a}
				schema[a], schema[b] = sa, sb
			}
			first := ""
			for k := 0; k < reps; k++ {
				ctx, cancel := context.WithCancel(context.Background())
				m := am.New(ctx, schema, &am.Opts{Id: "verif-c11"})
				out := ""
				for _, step := range []string{"add", "remove", "set"} {
					var res am.Result
					switch step {
					case "add":
						res = m.Add1("T", nil)
					case "remove":
						res = m.Remove1("T", nil)
					case "set":
						res = m.Set(am.S{"T"}, nil)
					}
					out += fmt.Sprint(res) + " " + strings.Join(m.ActiveStates(nil), ",") + " " + fmt.Sprint(m.Time(nil)) + "; "
				}
				cancel()
				r.States++
				if k == 0 {
					first = out
				} else if out != first {
					r.Violation = fmt.Sprintf("schema T{Remove:%v} X1..X4 Auto, mutual Remove pair #%d: Add T, Remove T, Set T gave [%s] in run 1 and [%s] in run %d", schema["T"].Remove, p, first, out, k+1)
					break
				}
			}
		}
	}
	// third family: exclusive groups written the usual way - ONE slice shared as the Remove
	// relation of all its members (so it contains each member itself). Every group of 2..4
	// of G1..G4; history: Add each member in turn, then Add all. Each run builds the schema
	// afresh; a second machine from the same schema value must behave like the first.
	gs := am.S{"G1", "G2", "G3", "G4"}
	for mask := 3; mask < 16 && r.Violation == ""; mask++ {
		build := func() am.Schema {
			var group am.S
			for i, g := range gs {
				if mask&(1<<i) != 0 {
					group = append(group, g)
				}
			}
			schema := am.Schema{}
			for i, g := range gs {
				if mask&(1<<i) != 0 {
					schema[g] = am.State{Remove: group, After: group}
				} else {
					schema[g] = am.State{}
				}
			}
			return schema
		}
		if len(build()) < 2 {
			continue
		}
		run := func(schema am.Schema) string {
			ctx, cancel := context.WithCancel(context.Background())
			defer cancel()
			m := am.New(ctx, schema, &am.Opts{Id: "verif-c11"})
			out := ""
			for _, g := range gs {
				res := m.Add1(g, nil)
				out += fmt.Sprint(res) + " " + strings.Join(m.ActiveStates(nil), ",") + "; "
			}
			res := m.Add(gs, nil)
			out += fmt.Sprint(res) + " " + strings.Join(m.ActiveStates(nil), ",") + " " + fmt.Sprint(m.Time(nil))
			return out
		}
		first := ""
		for k := 0; k < reps && r.Violation == ""; k++ {
			schema := build()
			out := run(schema)
			again := run(schema)
			r.States += 2
			if k == 0 {
				first = out
			}
			if out != first {
				r.Violation = fmt.Sprintf("group mask %04b of G1..G4 sharing one Remove/After slice: Add G1..G4 in turn, Add all gave [%s] in run 1 and [%s] in run %d", mask, first, out, k+1)
			} else if again != out {
				r.Violation = fmt.Sprintf("group mask %04b of G1..G4 sharing one Remove/After slice: a second machine built from the same schema value gave [%s], the first [%s]", mask, again, out)
			}
		}
	}
	// fourth family: VerifyStates with a list that covers the schema but repeats a name:
	// the state order (and with it Time, Index) is the order of first occurrence
	for k := 0; k < reps && r.Violation == ""; k++ {
		ctx, cancel := context.WithCancel(context.Background())
		m := am.New(ctx, am.Schema{"A": {}, "B": {}, "C": {}, "D": {}, "E": {}, "F": {}}, &am.Opts{Id: "verif-c11"})
		if err := m.VerifyStates(am.S{"F", "E", "D", "C", "B", "A", "F", am.StateException, "C"}); err != nil {
			panic(err)
		}
		m.Add(am.S{"B", "D", "F"}, nil)
		out := strings.Join(m.StateNames(), ",") + " " + fmt.Sprint(m.Time(nil)) + " " + strings.Join(m.ActiveStates(nil), ",")
		cancel()
		r.States++
		if want := "F,E,D,C,B,A,Exception " + fmt.Sprint(am.Time{1, 0, 1, 0, 1, 0, 0}) + " B,D,F"; out != want {
			r.Violation = fmt.Sprintf("VerifyStates{F,E,D,C,B,A,F,Exception,C}; Add{B,D,F} gave [%s] in run %d, expected [%s]", out, k+1, want)
		}
	}
	// fifth family: the order of the active states after a fault in a final handler (it decides
	// the Exit / End handler order of later transitions): A..E active, Add X whose XState panics,
	// then Remove{A..E} with End handlers logging their order
	first5 := ""
	for k := 0; k < reps && r.Violation == ""; k++ {
		ctx, cancel := context.WithCancel(context.Background())
		m := am.New(ctx, am.Schema{"A": {}, "B": {}, "C": {}, "D": {}, "E": {}, "X": {}}, &am.Opts{Id: "verif-c11"})
		var log []string
		fin := map[string]am.HandlerFinal{"XState": func(e *am.Event) { panic("boom") }}
		for _, n := range []string{"A", "B", "C", "D", "E"} {
			n := n
			fin[n+"End"] = func(e *am.Event) { log = append(log, n+"End") }
		}
		if _, err := m.HandlersBindMaps(nil, fin); err != nil {
			panic(err)
		}
		m.Add(am.S{"E", "C", "A", "D", "B"}, nil)
		m.Add1("X", nil)
		out := strings.Join(m.ActiveStates(nil), ",") + " | "
		m.Remove(am.S{"A", "B", "C", "D", "E"}, nil)
		out += strings.Join(log, " ") + " | " + strings.Join(m.ActiveStates(nil), ",") + " " + fmt.Sprint(m.Time(nil))
		cancel()
		r.States++
		if k == 0 {
			first5 = out
		} else if out != first5 {
			r.Violation = fmt.Sprintf("A..E active, Add X (XState panics), Remove{A..E}: active order | End handler order | outcome was [%s] in run 1 and [%s] in run %d", first5, out, k+1)
		}
	}
	json.NewEncoder(os.Stdout).Encode([]res{r})
}
`
	tmp, err := os.MkdirTemp("", "gocv-c11b-")
	if err != nil {
		return nil, err
	}
	defer os.RemoveAll(tmp)
	sf := filepath.Join(tmp, "main.go")
	os.WriteFile(sf, []byte(src), 0o644)
	keepStandin("c11_1", src)
	virt := filepath.Join(opts.Repo, "internal", "zz_verif_c11bounded", "main.go")
	ov, _ := json.Marshal(map[string]any{"Replace": map[string]string{virt: sf}})
	ovf := filepath.Join(tmp, "ov.json")
	os.WriteFile(ovf, ov, 0o644)
	ctx, cancel := context.WithTimeout(context.Background(), 10*time.Minute)
	defer cancel()
	cmd := exec.CommandContext(ctx, "go", "run", "-overlay", ovf, "./internal/zz_verif_c11bounded")
	cmd.Dir = opts.Repo
	cmd.Env = append(os.Environ(), "GOFLAGS=-mod=mod", "GOPROXY=off", "AM_LOG=0")
	var outb, errb bytes.Buffer
	cmd.Stdout = &outb
	cmd.Stderr = &errb
	if err := cmd.Run(); err != nil {
		return nil, fmt.Errorf("bounded determinism stand-in failed: %v: %s", err, firstLines(errb.String(), 12))
	}
	var raw []struct {
		Schema, Group, Violation, Kind string
		States                     int
		Exhausted                  bool
		Bound                      int
	}
	if err := json.Unmarshal(outb.Bytes(), &raw); err != nil {
		return nil, fmt.Errorf("bounded determinism output: %v (%s)", err, firstLines(outb.String(), 3))
	}
	var rs []BoundedResult
	for _, r := range raw {
		rs = append(rs, BoundedResult{Schema: r.Schema, Group: r.Group, States: r.States, Exhausted: r.Exhausted, Violation: r.Violation, Bound: r.Bound, Kind: r.Kind})
	}
	return rs, nil
}

// C05: bounded stand-in for the order of the resolved target (SortStates uses
// sort.SliceStable with opaque comparators, TopologicalSort is a recursive
// closure): in the target of Add{A,B,C,D}, a state comes after every state it
// Requires and after every state it lists in After, for all 4-state schemas with
// at most one Require and one After per state whose constraints are acyclic.
// Returns the descriptors of the failing schemas.
func runBoundedOrder(opts *RunOpts) (failing []string, total int, err error) {
	src := `package main

import (
	"context"
	"encoding/json"
	"fmt"
	"os"
	"strings"

	am "` + machinePkg + `"
)

func main() {
	names := am.S{"A", "B", "C", "D"}
	choice := func(code int, self int) am.S {
		if code == 0 {
			return nil
		}
		k := code - 1
		if k >= self {
			k++
		}
		return am.S{names[k]}
	}
	var failing []string
	total := 0
	for rc := 0; rc < 256; rc++ {
		for ac := 0; ac < 256; ac++ {
			schema := am.Schema{}
			before := map[string][]string{} // x -> states that must come before x
			c, a := rc, ac
			for i, n := range names {
				st := am.State{Require: choice(c%4, i), After: choice(a%4, i)}
				c /= 4
				a /= 4
				schema[n] = st
				before[n] = append(append([]string{}, st.Require...), st.After...)
			}
			// acyclic constraints only
			cyc := false
			var visit func(n string, path map[string]bool)
			visit = func(n string, path map[string]bool) {
				if path[n] {
					cyc = true
					return
				}
				path[n] = true
				for _, b := range before[n] {
					visit(b, path)
				}
				delete(path, n)
			}
			for _, n := range names {
				visit(n, map[string]bool{})
			}
			if cyc {
				continue
			}
			total++
			ctx, cancel := context.WithCancel(context.Background())
			m := am.New(ctx, schema, &am.Opts{Id: "verif-c05"})
			m.Add(names, nil)
			act := m.ActiveStates(nil)
			cancel()
			pos := map[string]int{}
			for i, s := range act {
				pos[s] = i
			}
			bad := ""
			for _, x := range names {
				for _, y := range before[x] {
					px, okx := pos[x]
					py, oky := pos[y]
					if okx && oky && py > px {
						bad = x + " before " + y
					}
				}
			}
			if bad != "" {
				var desc []string
				for _, n := range names {
					desc = append(desc, fmt.Sprintf("%s{Require:%v After:%v}", n, schema[n].Require, schema[n].After))
				}
				failing = append(failing, strings.Join(desc, " ")+" => "+strings.Join(act, ",")+" ("+bad+")")
			}
		}
	}
	json.NewEncoder(os.Stdout).Encode(map[string]any{"failing": failing, "total": total})
}
`
	tmp, e := os.MkdirTemp("", "gocv-c05b-")
	if e != nil {
		return nil, 0, e
	}
	defer os.RemoveAll(tmp)
	sf := filepath.Join(tmp, "main.go")
	os.WriteFile(sf, []byte(src), 0o644)
	keepStandin("c11_2", src)
	virt := filepath.Join(opts.Repo, "internal", "zz_verif_c05bounded", "main.go")
	ov, _ := json.Marshal(map[string]any{"Replace": map[string]string{virt: sf}})
	ovf := filepath.Join(tmp, "ov.json")
	os.WriteFile(ovf, ov, 0o644)
	ctx, cancel := context.WithTimeout(context.Background(), 10*time.Minute)
	defer cancel()
	cmd := exec.CommandContext(ctx, "go", "run", "-overlay", ovf, "./internal/zz_verif_c05bounded")
	cmd.Dir = opts.Repo
	cmd.Env = append(os.Environ(), "GOFLAGS=-mod=mod", "GOPROXY=off", "AM_LOG=0")
	var outb, errb bytes.Buffer
	cmd.Stdout = &outb
	cmd.Stderr = &errb
	if e := cmd.Run(); e != nil {
		return nil, 0, fmt.Errorf("bounded order stand-in failed: %v: %s", e, firstLines(errb.String(), 12))
	}
	var raw struct {
		Failing []string
		Total   int
	}
	if e := json.Unmarshal(outb.Bytes(), &raw); e != nil {
		return nil, 0, fmt.Errorf("bounded order output: %v (%s)", e, firstLines(outb.String(), 3))
	}
	return raw.Failing, raw.Total, nil
}
