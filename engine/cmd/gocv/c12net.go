package main

// C12, second sentence ("the same holds for a network machine that is receiving clock
// updates while being read"): NetworkMachine's lock discipline is not under contract, so a
// BOUNDED stand-in runs one concurrent program family on the real code under the Go race
// detector: one updater feeding clock updates (ticks growing, the queue tick periodically
// falling back) and six reader goroutines over the public readers and waiters
// (witness/c12_netmach_readers.go, injected into pkg/rpc with go test -overlay -race).
// A DATA RACE report is a concrete failing schedule. Labelled bounded.

import (
	"bytes"
	"context"
	"encoding/json"
	"fmt"
	"os"
	"os/exec"
	"path/filepath"
	"strings"
	"time"
)

func runBoundedNetRace(opts *RunOpts) (failing []string, total int, err error) {
	src, e := os.ReadFile(filepath.Join(opts.Verif, "witness", "c12_netmach_readers.go"))
	if e != nil {
		return nil, 0, e
	}
	tmp, e := os.MkdirTemp("", "gocv-c12n-")
	if e != nil {
		return nil, 0, e
	}
	defer os.RemoveAll(tmp)
	sf := filepath.Join(tmp, "zz_verif_c12net_test.go")
	os.WriteFile(sf, src, 0o644)
	virt := filepath.Join(opts.Repo, "pkg", "rpc", "zz_verif_c12net_test.go")
	ov, _ := json.Marshal(map[string]any{"Replace": map[string]string{virt: sf}})
	ovf := filepath.Join(tmp, "ov.json")
	os.WriteFile(ovf, ov, 0o644)
	runs := 2
	if opts.Tier == "thorough" {
		runs = 6
	}
	for i := 0; i < runs; i++ {
		total++
		ctx, cancel := context.WithTimeout(context.Background(), 5*time.Minute)
		cmd := exec.CommandContext(ctx, "go", "test", "-race", "-overlay", ovf, "-vet=off", "-count=1", "-timeout", "240s", "-run", "^TestVerifC12NetMachReaders$", "./pkg/rpc/")
		cmd.Dir = opts.Repo
		cmd.Env = append(os.Environ(), "GOFLAGS=-mod=mod", "GOPROXY=off", "AM_LOG=0")
		var outb bytes.Buffer
		cmd.Stdout = &outb
		cmd.Stderr = &outb
		runErr := cmd.Run()
		cancel()
		out := outb.String()
		switch {
		case strings.Contains(out, "WARNING: DATA RACE"):
			first := out[strings.Index(out, "WARNING: DATA RACE"):]
			failing = append(failing, fmt.Sprintf("run %d: updater + readers on a NetworkMachine => data race: %s", i+1, strings.Join(strings.Fields(firstLines(first, 14)), " ")))
			return failing, total, nil
		case strings.Contains(out, "[build failed]") || strings.Contains(out, "cannot find package"):
			return nil, 0, fmt.Errorf("network-machine race stand-in could not be built: %s", firstLines(out, 6))
		case runErr != nil:
			return nil, 0, fmt.Errorf("network-machine race stand-in failed: %v: %s", runErr, firstLines(out, 12))
		}
	}
	return nil, total, nil
}
