package main

// C13: bounded stand-in on the real machine for disposal (Dispose / doDispose /
// handlerLoop are goroutines, sleeps and lock hand-overs: outside the verifier).
// Scenarios: where the disposal lands (idle machine, from inside a final
// handler, from inside a negotiation handler, twice, DisposeForce, parent
// context canceled) x machine shape (with / without handlers, with / without
// the Start state active, with the state-based Disposing/Disposed mixin
// handlers). Oracle: the property's wording - WhenDisposed closes, every When*
// channel and state context is released, OnDispose handlers ran exactly once,
// later calls return neutral values promptly. Labelled bounded.

import (
	"bytes"
	"context"
	"encoding/json"
	"fmt"
	"os"
	"os/exec"
	"path/filepath"
	"time"
)

func runBoundedDispose(opts *RunOpts) (failing []string, total int, err error) {
	src := `package main

import (
	"context"
	"encoding/json"
	"fmt"
	"os"
	"runtime"
	"strings"
	"sync/atomic"
	"time"

	am "` + machinePkg + `"
)

type graceful struct {
	ran *atomic.Int32
}

func (h *graceful) DisposingState(e *am.Event) {
	mach := e.Machine()
	go func() {
		h.ran.Add(1)
		mach.EvAdd1(e, "Disposed", nil)
	}()
}

func (h *graceful) DisposedState(e *am.Event) {
	go e.Machine().Dispose()
}

// handlerLoops counts the live handler goroutines of all machines of this process
func handlerLoops() int {
	buf := make([]byte, 1<<20)
	buf = buf[:runtime.Stack(buf, true)]
	return strings.Count(string(buf), ".handlerLoop(")
}

func closedWithin(ch <-chan struct{}, d time.Duration) bool {
	select {
	case <-ch:
		return true
	case <-time.After(d):
		return false
	}
}

func main() {
	var failing []string
	total := 0
	how := []string{"idle", "in-final-handler", "in-negotiation-handler", "twice", "force", "parent-ctx", "idle-detached", "force-detached", "during-handler"}
	for _, where := range how {
		for _, withStart := range []bool{false, true} {
			for _, mixin := range []bool{false, true} {
				total++
				name := fmt.Sprintf("dispose=%s start=%v mixin=%v", where, withStart, mixin)
				runCase := func() string {
				parent, cancelParent := context.WithCancel(context.Background())
				schema := am.Schema{"A": {}, "B": {}, am.StateStart: {}}
				if mixin {
					schema[am.StateDisposing] = am.State{Remove: am.S{am.StateStart, am.StateException}}
					schema["Disposed"] = am.State{Remove: am.S{am.StateStart, am.StateException, am.StateDisposing}}
				}
				m := am.New(parent, schema, &am.Opts{Id: "verif-c13"})
				m.HandlerTimeout = 2 * time.Second
				m.EvalTimeout = 5 * time.Minute
				detached := strings.HasSuffix(where, "-detached")
				if detached && mixin {
					return "" // the scenario detaches ALL handlers: no state-based dispose handler
				}
				evalDone := make(chan bool, 1)
				var evalRan atomic.Bool
				pendingEval := func() {
					// an Eval with the caller's own live context, queued behind the running handler
					go func() { evalDone <- m.Eval("verif-c13", func() { evalRan.Store(true) }, context.Background()) }()
					time.Sleep(30 * time.Millisecond)
				}
				var direct, stateBased, late atomic.Int32
				m.OnDispose(func(id string, ctx context.Context) { direct.Add(1) })
				if mixin {
					if _, err := m.HandlersBind(&graceful{ran: &stateBased}); err != nil {
						panic(err)
					}
				}
				disposeNow := func() {
					switch where {
					case "force", "force-detached":
						m.DisposeForce()
					default:
						m.Dispose()
					}
				}
				neg := map[string]am.HandlerNegotiation{}
				fin := map[string]am.HandlerFinal{}
				if where == "in-final-handler" {
					fin["AState"] = func(e *am.Event) { pendingEval(); disposeNow() }
				}
				if where == "in-negotiation-handler" {
					neg["AEnter"] = func(e *am.Event) bool { pendingEval(); disposeNow(); return true }
				}
				entered, release := make(chan struct{}), make(chan struct{})
				if where == "during-handler" {
					// Dispose lands from another goroutine while a final handler is running
					m.DisposeTimeout = 200 * time.Millisecond
					fin["AState"] = func(e *am.Event) {
						close(entered)
						<-release
						// a dispose handler registered while the disposal waits for the queue to drain
						m.OnDispose(func(id string, ctx context.Context) { late.Add(1) })
					}
				}
				binding, err := m.HandlersBindMaps(neg, fin)
				if err != nil {
					panic(err)
				}
				if withStart {
					m.Add1(am.StateStart, nil)
				}
				// outstanding waiters
				w1 := m.When1("B", nil)
				w2 := m.WhenNot1("A", nil)
				m.Add1("B", nil)
				m.Remove1("B", nil)
				w3 := m.WhenTime1("B", 99, nil)
				w4 := m.WhenQueue(am.Result(m.QueueTick() + 50))
				sctx := m.NewStateCtx(am.StateException) // inactive state: context tied to tick 0
				_ = w1
				done := make(chan struct{})
				go func() {
					defer close(done)
					switch where {
					case "idle", "force":
						disposeNow()
					case "idle-detached", "force-detached":
						// the handler goroutine was started by the binding and outlives the detach
						if err := m.HandlersDetach(binding); err != nil {
							panic(err)
						}
						disposeNow()
					case "twice":
						disposeNow()
						disposeNow()
					case "parent-ctx":
						cancelParent()
					case "during-handler":
						go m.Add1("A", nil)
						if !closedWithin(entered, 2*time.Second) {
							panic("handler did not start")
						}
						pendingEval()
						// two more mutations queued behind the running handler: the queue is abandoned
						go m.Add1("B", nil)
						go m.Remove1("B", nil)
						time.Sleep(20 * time.Millisecond)
						disposeNow()
						time.Sleep(100 * time.Millisecond)
						close(release)
					default:
						m.Add1("A", nil)
					}
				}()
				bad := ""
				if !closedWithin(done, 5*time.Second) {
					bad = "the disposing call did not return within 5s"
				}
				if bad == "" && !closedWithin(m.WhenDisposed(), 5*time.Second) {
					bad = "WhenDisposed still open 5s after disposal"
				}
				if bad == "" {
					for i, w := range []<-chan struct{}{w2, w3, w4} {
						if !closedWithin(w, time.Second) {
							bad = fmt.Sprintf("waiter #%d (WhenNot/WhenTime/WhenQueue) still open after disposal", i+2)
						}
					}
					if !closedWithin(sctx.Done(), time.Second) {
						bad = "state context still alive after disposal"
					}
					if strings.HasPrefix(where, "in-") || where == "during-handler" {
						select {
						case ok := <-evalDone:
							if ok && !evalRan.Load() {
								bad = "an Eval pending at disposal reported success although its func never ran"
							}
						case <-time.After(3 * time.Second):
							bad = "an Eval (own live context) pending at disposal is still blocked 3s after disposal"
						}
					}
					// the handler goroutine has exited
					gone := false
					for i := 0; i < 40 && !gone; i++ {
						if gone = handlerLoops() == 0; !gone {
							time.Sleep(50 * time.Millisecond)
						}
					}
					if !gone {
						bad = "the handler goroutine is still running 2s after disposal"
					}
					if direct.Load() != 1 {
						bad = fmt.Sprintf("OnDispose handler ran %d times", direct.Load())
					}
					if where == "during-handler" && late.Load() != 1 {
						bad = fmt.Sprintf("a dispose handler registered while the disposal was draining the queue ran %d times", late.Load())
					}
					if mixin && where == "parent-ctx" && stateBased.Load() != 1 {
						bad = fmt.Sprintf("state-based dispose handler ran %d times on parent-context cancel", stateBased.Load())
					}
					// later calls are neutral and prompt
					lc := make(chan string, 1)
					go func() {
						r := ""
						if m.Add1("A", nil) != am.Canceled {
							r = "Add after disposal did not return Canceled"
						}
						if m.Is1("A") || len(m.ActiveStates(nil)) != 0 {
							r = "getters after disposal are not neutral"
						}
						if !closedWithin(m.When1("A", nil), time.Second) {
							r = "When after disposal does not return a closed channel"
						}
						if !closedWithin(m.WhenQueueEnds(), time.Second) {
							r = "WhenQueueEnds after disposal does not return a closed channel"
						}
						if !closedWithin(m.WhenQueue(am.Result(m.QueueTick()+5)), time.Second) {
							r = "WhenQueue after disposal does not return a closed channel"
						}
						lc <- r
					}()
					select {
					case r := <-lc:
						if r != "" {
							bad = r
						}
					case <-time.After(3 * time.Second):
						bad = "a call after disposal blocked"
					}
				}
				cancelParent()
				return bad
				}
				// a scenario is reported only if it fails twice in a row (scheduling noise under load)
				if bad := runCase(); bad != "" {
					if bad2 := runCase(); bad2 != "" {
						failing = append(failing, name+" => "+bad2)
					}
				}
			}
		}
	}
	// two WhenTime subscriptions sharing a state, one of them completing state by state
	{
		total++
		runCase := func() string {
			ctx, cancel := context.WithCancel(context.Background())
			defer cancel()
			m := am.New(ctx, am.Schema{"A": {}, "B": {}}, &am.Opts{Id: "verif-c13"})
			both := m.WhenTime(am.S{"A", "B"}, am.Time{1, 1}, nil)
			long := m.WhenTime1("A", 1001, nil)
			m.Add1("A", nil)
			m.Add1("B", nil)
			if !closedWithin(both, time.Second) {
				return "WhenTime(A,B; 1,1) still open after both states ticked"
			}
			m.Dispose()
			if !closedWithin(m.WhenDisposed(), 5*time.Second) {
				return "WhenDisposed still open 5s after disposal"
			}
			if !closedWithin(long, time.Second) {
				return "WhenTime(A, 1001), which shared state A with a completed two-state subscription, still open after disposal"
			}
			return ""
		}
		if bad := runCase(); bad != "" {
			if bad2 := runCase(); bad2 != "" {
				failing = append(failing, "two WhenTime subscriptions sharing a state => "+bad2)
			}
		}
	}
	json.NewEncoder(os.Stdout).Encode(map[string]any{"failing": failing, "total": total})
}
`
	tmp, e := os.MkdirTemp("", "gocv-c13b-")
	if e != nil {
		return nil, 0, e
	}
	defer os.RemoveAll(tmp)
	sf := filepath.Join(tmp, "main.go")
	os.WriteFile(sf, []byte(src), 0o644)
	keepStandin("c13_1", src)
	virt := filepath.Join(opts.Repo, "internal", "zz_verif_c13bounded", "main.go")
	ov, _ := json.Marshal(map[string]any{"Replace": map[string]string{virt: sf}})
	ovf := filepath.Join(tmp, "ov.json")
	os.WriteFile(ovf, ov, 0o644)
	ctx, cancel := context.WithTimeout(context.Background(), 10*time.Minute)
	defer cancel()
	cmd := exec.CommandContext(ctx, "go", "run", "-overlay", ovf, "./internal/zz_verif_c13bounded")
	cmd.Dir = opts.Repo
	cmd.Env = append(os.Environ(), "GOFLAGS=-mod=mod", "GOPROXY=off", "AM_LOG=0")
	var outb, errb bytes.Buffer
	cmd.Stdout = &outb
	cmd.Stderr = &errb
	if e := cmd.Run(); e != nil {
		return nil, 0, fmt.Errorf("bounded dispose stand-in failed: %v: %s", e, firstLines(errb.String(), 12))
	}
	var raw struct {
		Failing []string
		Total   int
	}
	if e := json.Unmarshal(outb.Bytes(), &raw); e != nil {
		return nil, 0, fmt.Errorf("bounded dispose output: %v (%s)", e, firstLines(outb.String(), 3))
	}
	return raw.Failing, raw.Total, nil
}
