package main

// C14: bounded stand-in on the real machine for the tracer stream as a whole
// (processQueue chains the transitions; handler dispatch decides acceptance).
// Family: states A, B (Multi), C (Removes A); every history of up to 3 mutations
// over Add/Remove/Set of each state, Add{A,B}, CanAdd{C}; variants: no handlers,
// struct-bound final handlers that return values, a vetoing CEnter; two tracers
// bound. Oracle: the property's wording. Labelled bounded.

import (
	"bytes"
	"context"
	"encoding/json"
	"fmt"
	"os"
	"os/exec"
	"path/filepath"
	"time"
)

func runBoundedTracers(opts *RunOpts) (failing []string, total int, err error) {
	src := `package main

import (
	"context"
	"encoding/json"
	"fmt"
	"os"
	"strings"

	am "` + machinePkg + `"
)

type ev struct {
	kind           string
	id             string
	before, after  string
	accepted, check bool
	acc             string // accessor views (ClockBefore/ClockAfter) that disagree with the fields
}

type tr struct {
	*am.TracerNoOp
	log *[]ev
}

func snap(kind string, tx *am.Transition) ev {
	// a tracer may read the times through the accessors at any hook (also early ones)
	acc := ""
	names := tx.Machine.StateNames()
	cb, ca := tx.ClockBefore(), tx.ClockAfter()
	for i, n := range names {
		if i < len(tx.TimeBefore) && cb[n] != tx.TimeBefore[i] {
			acc = fmt.Sprintf("ClockBefore()[%s]=%d but TimeBefore=%d at %s", n, cb[n], tx.TimeBefore[i], kind)
		}
		if i < len(tx.TimeAfter) && ca[n] != tx.TimeAfter[i] {
			acc = fmt.Sprintf("ClockAfter()[%s]=%d but TimeAfter=%d at %s", n, ca[n], tx.TimeAfter[i], kind)
		}
	}
	return ev{kind, tx.Id, fmt.Sprint(tx.TimeBefore), fmt.Sprint(tx.TimeAfter), tx.IsAccepted.Load(), tx.Mutation.IsCheck, acc}
}
func (t *tr) TransitionInit(tx *am.Transition)   { *t.log = append(*t.log, snap("init", tx)) }
func (t *tr) TransitionStart(tx *am.Transition)  { *t.log = append(*t.log, snap("start", tx)) }
func (t *tr) TransitionFinals(tx *am.Transition) { *t.log = append(*t.log, snap("finals", tx)) }
func (t *tr) TransitionEnd(tx *am.Transition)    { *t.log = append(*t.log, snap("end", tx)) }

// struct-bound handlers whose final handlers return values (which must be ignored)
type valueHandlers struct{}

func (h *valueHandlers) AState(e *am.Event) bool { return false }
func (h *valueHandlers) BEnd(e *am.Event) bool   { return false }
func (h *valueHandlers) BState(e *am.Event)      {}

type vetoHandlers struct{}

func (h *vetoHandlers) CEnter(e *am.Event) bool { return false }

type op struct {
	kind   string
	states am.S
}

func (o op) String() string { return o.kind + "{" + strings.Join(o.states, ",") + "}" }

func main() {
	names := am.S{"A", "B", "C"}
	var ops []op
	for _, n := range names {
		ops = append(ops, op{"add", am.S{n}}, op{"remove", am.S{n}}, op{"set", am.S{n}})
	}
	ops = append(ops, op{"add", am.S{"A", "B"}}, op{"canadd", am.S{"C"}})
	var hist [][]op
	for _, a := range ops {
		hist = append(hist, []op{a})
		for _, b := range ops {
			hist = append(hist, []op{a, b})
			for _, c := range ops {
				hist = append(hist, []op{a, b, c})
			}
		}
	}
	var failing []string
	total := 0
	for _, variant := range []string{"plain", "value-returning-finals", "veto-CEnter"} {
		for _, h := range hist {
			if variant != "plain" && len(h) == 3 {
				continue
			}
			total++
			ctx, cancel := context.WithCancel(context.Background())
			m := am.New(ctx, am.Schema{"A": {}, "B": {Multi: true}, "C": {Remove: am.S{"A"}}}, &am.Opts{Id: "verif-c14"})
			var log1, log2 []ev
			m.BindTracer(&tr{TracerNoOp: &am.TracerNoOp{Id: "t1"}, log: &log1})
			m.BindTracer(&tr{TracerNoOp: &am.TracerNoOp{Id: "t2"}, log: &log2})
			switch variant {
			case "value-returning-finals":
				if _, err := m.HandlersBind(&valueHandlers{}); err != nil {
					panic(err)
				}
			case "veto-CEnter":
				if _, err := m.HandlersBind(&vetoHandlers{}); err != nil {
					panic(err)
				}
			}
			start := fmt.Sprint(m.Time(nil))
			for _, o := range h {
				switch o.kind {
				case "add":
					m.Add(o.states, nil)
				case "remove":
					m.Remove(o.states, nil)
				case "set":
					m.Set(o.states, nil)
				case "canadd":
					m.CanAdd(o.states, nil)
				}
			}
			final := fmt.Sprint(m.Time(nil))
			cancel()
			bad := ""
			if fmt.Sprint(log1) != fmt.Sprint(log2) {
				bad = "two bound tracers saw different streams"
			}
			for _, e := range log1 {
				if e.acc != "" && bad == "" {
					bad = "accessor view differs from the transition's times: " + e.acc
				}
			}
			// init start [finals] end per transition, no interleaving, chained times
			i := 0
			prevAfter := start
			n := 0
			for i < len(log1) && bad == "" {
				if log1[i].kind != "init" {
					bad = fmt.Sprintf("event %d is %s, expected init", i, log1[i].kind)
					break
				}
				id := log1[i].id
				want := []string{"init", "start"}
				j := i
				for _, k := range want {
					if j >= len(log1) || log1[j].kind != k || log1[j].id != id {
						bad = fmt.Sprintf("transition #%d: expected %s at event %d", n+1, k, j)
					}
					j++
				}
				if bad != "" {
					break
				}
				hasFinals := false
				if j < len(log1) && log1[j].kind == "finals" && log1[j].id == id {
					hasFinals = true
					j++
				}
				if j >= len(log1) || log1[j].kind != "end" || log1[j].id != id {
					bad = fmt.Sprintf("transition #%d: expected end at event %d", n+1, j)
					break
				}
				e := log1[j]
				if hasFinals != (e.accepted && !e.check) {
					bad = fmt.Sprintf("transition #%d: finals=%v for accepted=%v check=%v", n+1, hasFinals, e.accepted, e.check)
				}
				if e.before != prevAfter {
					bad = fmt.Sprintf("transition #%d: time-before %s is not the previous time-after %s", n+1, e.before, prevAfter)
				}
				if (!e.accepted || e.check) && e.after != e.before {
					bad = fmt.Sprintf("transition #%d: canceled / check-only but reports a change %s -> %s", n+1, e.before, e.after)
				}
				prevAfter = e.after
				i = j + 1
				n++
			}
			if bad == "" && prevAfter != final {
				bad = fmt.Sprintf("the last reported time-after %s is not the machine's final time %s", prevAfter, final)
			}
			if bad != "" {
				var hs []string
				for _, o := range h {
					hs = append(hs, o.String())
				}
				failing = append(failing, fmt.Sprintf("variant=%s history %s => %s", variant, strings.Join(hs, " "), bad))
			}
		}
	}
	// detaching one of three tracers in the middle of a workload: the other two keep seeing every
	// transition, the detached one sees nothing more
	for det := 0; det < 3; det++ {
		total++
		ctx, cancel := context.WithCancel(context.Background())
		m := am.New(ctx, am.Schema{"A": {}, "B": {Multi: true}, "C": {Remove: am.S{"A"}}}, &am.Opts{Id: "verif-c14"})
		logs := make([][]ev, 3)
		for i := range logs {
			m.BindTracer(&tr{TracerNoOp: &am.TracerNoOp{Id: fmt.Sprintf("t%d", i)}, log: &logs[i]})
		}
		m.Add1("A", nil)
		m.Add1("B", nil)
		if err := m.DetachTracer(fmt.Sprintf("t%d", det)); err != nil {
			panic(err)
		}
		at := len(logs[det])
		m.Add1("B", nil)
		m.Add1("C", nil)
		m.Remove1("B", nil)
		cancel()
		bad := ""
		for i := range logs {
			if i == det {
				if len(logs[i]) != at {
					bad = fmt.Sprintf("the detached tracer t%d still received %d events", i, len(logs[i])-at)
				}
				continue
			}
			ends := 0
			for _, e := range logs[i] {
				if e.kind == "end" {
					ends++
				}
			}
			if ends != 5 {
				bad = fmt.Sprintf("tracer t%d (still bound) saw %d of 5 transitions after t%d was detached", i, ends, det)
			}
		}
		if bad != "" {
			failing = append(failing, fmt.Sprintf("three tracers, detach t%d after two transitions => %s", det, bad))
		}
	}
	json.NewEncoder(os.Stdout).Encode(map[string]any{"failing": failing, "total": total})
}
`
	tmp, e := os.MkdirTemp("", "gocv-c14b-")
	if e != nil {
		return nil, 0, e
	}
	defer os.RemoveAll(tmp)
	sf := filepath.Join(tmp, "main.go")
	os.WriteFile(sf, []byte(src), 0o644)
	keepStandin("c14_1", src)
	virt := filepath.Join(opts.Repo, "internal", "zz_verif_c14bounded", "main.go")
	ov, _ := json.Marshal(map[string]any{"Replace": map[string]string{virt: sf}})
	ovf := filepath.Join(tmp, "ov.json")
	os.WriteFile(ovf, ov, 0o644)
	ctx, cancel := context.WithTimeout(context.Background(), 10*time.Minute)
	defer cancel()
	cmd := exec.CommandContext(ctx, "go", "run", "-overlay", ovf, "./internal/zz_verif_c14bounded")
	cmd.Dir = opts.Repo
	cmd.Env = append(os.Environ(), "GOFLAGS=-mod=mod", "GOPROXY=off", "AM_LOG=0")
	var outb, errb bytes.Buffer
	cmd.Stdout = &outb
	cmd.Stderr = &errb
	if e := cmd.Run(); e != nil {
		return nil, 0, fmt.Errorf("bounded tracer stand-in failed: %v: %s", e, firstLines(errb.String(), 12))
	}
	var raw struct {
		Failing []string
		Total   int
	}
	if e := json.Unmarshal(outb.Bytes(), &raw); e != nil {
		return nil, 0, fmt.Errorf("bounded tracer output: %v (%s)", e, firstLines(outb.String(), 3))
	}
	return raw.Failing, raw.Total, nil
}
