package main

// C17: bounded stand-in on the real machine and the real in-memory history backend
// for the log as a whole (which transitions yield a record, rotation, and FindLatest
// returning PRECISELY the matching records, newest first - completeness is not under
// contract because the time conditions go through the opaque time package).
// Family: states A, B (Multi), C (Removes A); every history of up to 3 mutations over
// Add/Remove of each state; tracking configurations {all states; a reordered subset;
// MaxRecords=2; Changed allow-list; Called block-list; TrackRejected}. An independent
// recording tracer gives the expected log. Queries: Active / Inactive of every tracked
// state, Activated / Deactivated of the non-Multi ones (only where every transition is
// tracked, so that "previous record" and "previous transition" coincide), each alone,
// with machine-time-sum ranges and with limit 1; plus the *Between helpers over a wide
// human-time window. Oracle: a linear scan of the exported records with the Query
// documentation's meaning. Export -> Import on a fresh machine at the end of every
// history. Labelled bounded.

import (
	"bytes"
	"context"
	"encoding/json"
	"fmt"
	"os"
	"os/exec"
	"path/filepath"
	"strings"
	"time"
)

func runBoundedHistory(opts *RunOpts) (failing []string, total int, err error) {
	src := `package main

import (
	"context"
	"encoding/json"
	"fmt"
	"os"
	"slices"
	"strings"
	"time"

	amhist "` + strings.TrimSuffix(machinePkg, "/machine") + `/history"
	am "` + machinePkg + `"
)

type seen struct {
	accepted, check bool
	called          am.S
	before, after   am.Time
}

type rec struct {
	*am.TracerNoOp
	log *[]seen
}

func (t *rec) TransitionEnd(tx *am.Transition) {
	*t.log = append(*t.log, seen{tx.IsAccepted.Load(), tx.Mutation.IsCheck, tx.CalledStates(),
		slices.Clone(tx.TimeBefore), slices.Clone(tx.TimeAfter)})
}

// exp exports the machine from inside tracer hooks and compares with the machine's time
type exp struct {
	*am.TracerNoOp
	m   *am.Machine
	bad *string
}

func (t *exp) check(where string) {
	data, _, err := t.m.Export()
	if err != nil {
		*t.bad = "Export from " + where + " failed: " + err.Error()
		return
	}
	if fmt.Sprint(data.Time) != fmt.Sprint(t.m.Time(nil)) && *t.bad == "" {
		*t.bad = fmt.Sprintf("Export from %s has time %v, the machine's time is %v", where, data.Time, t.m.Time(nil))
	}
}
func (t *exp) TransitionFinals(tx *am.Transition) { t.check("TransitionFinals") }
func (t *exp) TransitionEnd(tx *am.Transition)    { t.check("TransitionEnd") }

type op struct {
	add  bool
	name string
}

func (o op) String() string {
	if o.add {
		return "+" + o.name
	}
	return "-" + o.name
}

type cfgCase struct {
	name string
	cfg  amhist.Config
	all  bool // every accepted transition is tracked and nothing is rotated out
}

func sum(t am.Time) uint64 {
	var s uint64
	for _, v := range t {
		s += v
	}
	return s
}

func main() {
	names := am.S{"A", "B", "C"}
	multi := map[string]bool{"B": true}
	var ops []op
	for _, n := range names {
		ops = append(ops, op{true, n}, op{false, n})
	}
	var hist [][]op
	for _, a := range ops {
		hist = append(hist, []op{a})
		for _, b := range ops {
			hist = append(hist, []op{a, b})
			for _, c := range ops {
				hist = append(hist, []op{a, b, c})
			}
		}
	}
	cfgs := []cfgCase{
		{"all", amhist.Config{TrackedStates: am.S{"A", "B", "C"}, MaxRecords: 100}, true},
		{"subset-C-A", amhist.Config{TrackedStates: am.S{"C", "A"}, MaxRecords: 100}, true},
		{"max-2", amhist.Config{TrackedStates: am.S{"A", "B", "C"}, MaxRecords: 2}, false},
		{"changed-A", amhist.Config{TrackedStates: am.S{"B"}, Changed: am.S{"A"}, MaxRecords: 100}, false},
		{"called-not-B", amhist.Config{TrackedStates: am.S{"A", "B", "C"}, Called: am.S{"B"}, CalledExclude: true, MaxRecords: 100}, false},
		{"rejected-too", amhist.Config{TrackedStates: am.S{"A", "B", "C"}, TrackRejected: true, MaxRecords: 100}, false},
	}
	var failing []string
	total := 0
	for _, cc := range cfgs {
		for _, h := range hist {
			total++
			ctx, cancel := context.WithCancel(context.Background())
			m := am.New(ctx, am.Schema{"A": {}, "B": {Multi: true}, "C": {Remove: am.S{"A"}}}, &am.Opts{Id: "verif-c17"})
			if err := m.VerifyStates(am.S{"A", "B", "C", am.StateException}); err != nil {
				panic(err)
			}
			var log []seen
			m.BindTracer(&rec{TracerNoOp: &am.TracerNoOp{Id: "verif-rec"}, log: &log})
			var memErr error
			mem, err := amhist.NewMemory(ctx, nil, m, cc.cfg, func(e error) { memErr = e })
			if err != nil {
				panic(err)
			}
			t0 := time.Now().Add(-time.Hour)
			for _, o := range h {
				if o.add {
					m.Add1(o.name, nil)
				} else {
					m.Remove1(o.name, nil)
				}
			}
			t1 := time.Now().Add(time.Hour)
			bad := ""
			fail := func(f string, a ...any) {
				if bad == "" {
					bad = fmt.Sprintf(f, a...)
				}
			}
			if memErr != nil {
				fail("history reported an error: %v", memErr)
			}
			tracked := mem.Config().TrackedStates
			midx := m.Index(tracked)
			// ---- the expected log, from the independent tracer and the documented configuration
			var want []seen
			for _, s := range log {
				if s.check || (!s.accepted && !cc.cfg.TrackRejected) {
					continue
				}
				match := true
				if len(cc.cfg.Called) > 0 {
					hit := false
					for _, c := range s.called {
						hit = hit || slices.Contains(cc.cfg.Called, c)
					}
					match = match && hit != cc.cfg.CalledExclude
				}
				if len(cc.cfg.Changed) > 0 {
					hit := false
					for i, n := range m.StateNames() {
						if s.before[i] != s.after[i] && slices.Contains(cc.cfg.Changed, n) {
							hit = true
						}
					}
					match = match && hit != cc.cfg.ChangedExclude
				}
				if match {
					want = append(want, s)
				}
			}
			if len(want) > cc.cfg.MaxRecords {
				want = want[len(want)-cc.cfg.MaxRecords:]
			}
			db := mem.Export()
			if len(db) != len(want) {
				fail("%d records kept, expected %d (MaxRecords %d)", len(db), len(want), cc.cfg.MaxRecords)
			}
			for i := 0; i < len(db) && i < len(want); i++ {
				var exp am.Time
				for _, k := range midx {
					exp = append(exp, want[i].after[k])
				}
				if fmt.Sprint(db[i].Time.MTimeTracked) != fmt.Sprint(exp) {
					fail("record #%d has tracked times %v, the machine's time after that transition was %v (tracked %v)", i, db[i].Time.MTimeTracked, exp, tracked)
				}
				if db[i].Time.MTimeSum != sum(want[i].after) {
					fail("record #%d has time sum %d, expected %d", i, db[i].Time.MTimeSum, sum(want[i].after))
				}
			}
			// ---- queries against a linear scan of the exported records
			active := func(r *amhist.MemoryRecord, s string) bool {
				return am.IsActiveTick(r.Time.MTimeTracked[slices.Index(tracked, s)])
			}
			type q struct {
				desc  string
				query amhist.Query
				holds func(i int) bool
			}
			var qs []q
			for _, s := range tracked {
				s := s
				qs = append(qs, q{"Active{" + s + "}", amhist.Query{Active: am.S{s}}, func(i int) bool { return active(db[i], s) }})
				qs = append(qs, q{"Inactive{" + s + "}", amhist.Query{Inactive: am.S{s}}, func(i int) bool { return !active(db[i], s) }})
				if cc.all && !multi[s] {
					qs = append(qs, q{"Activated{" + s + "}", amhist.Query{Activated: am.S{s}}, func(i int) bool {
						return active(db[i], s) && (i == 0 || !active(db[i-1], s))
					}})
					qs = append(qs, q{"Deactivated{" + s + "}", amhist.Query{Deactivated: am.S{s}}, func(i int) bool {
						return !active(db[i], s) && i > 0 && active(db[i-1], s)
					}})
				}
			}
			// scalar time conditions: one field at a time, a few ranges each (the sums grow along
			// the log, the per-transition and per-record differences do not)
			type rng struct {
				field  string
				lo, hi uint64
			}
			ranges := []rng{{"", 0, 0}}
			for _, f := range []string{"MTimeSum", "MTimeTrackedSum", "MTimeDiff", "MTimeTrackedDiff", "MTimeRecordDiff"} {
				for _, b := range [][2]uint64{{1, 1}, {1, 2}, {2, 3}, {2, 100}} {
					ranges = append(ranges, rng{f, b[0], b[1]})
				}
			}
			fieldOf := func(r *amhist.MemoryRecord, f string) uint64 {
				switch f {
				case "MTimeSum":
					return r.Time.MTimeSum
				case "MTimeTrackedSum":
					return r.Time.MTimeTrackedSum
				case "MTimeDiff":
					return r.Time.MTimeDiffSum
				case "MTimeTrackedDiff":
					return r.Time.MTimeTrackedDiffSum
				}
				return r.Time.MTimeRecordDiffSum
			}
			for _, qq := range qs {
				for _, rg := range ranges {
					for _, limit := range []int{0, 1} {
						query := qq.query
						desc := qq.desc
						if rg.field != "" {
							switch rg.field {
							case "MTimeSum":
								query.Start.MTimeSum, query.End.MTimeSum = rg.lo, rg.hi
							case "MTimeTrackedSum":
								query.Start.MTimeTrackedSum, query.End.MTimeTrackedSum = rg.lo, rg.hi
							case "MTimeDiff":
								query.Start.MTimeDiff, query.End.MTimeDiff = rg.lo, rg.hi
							case "MTimeTrackedDiff":
								query.Start.MTimeTrackedDiff, query.End.MTimeTrackedDiff = rg.lo, rg.hi
							default:
								query.Start.MTimeRecordDiff, query.End.MTimeRecordDiff = rg.lo, rg.hi
							}
							desc += fmt.Sprintf(" %s in [%d,%d]", rg.field, rg.lo, rg.hi)
						}
						var exp []*amhist.MemoryRecord
						for i := len(db) - 1; i >= 0; i-- {
							if !qq.holds(i) {
								continue
							}
							if v := fieldOf(db[i], rg.field); rg.field != "" && (v < rg.lo || v > rg.hi) {
								continue
							}
							exp = append(exp, db[i])
							if limit > 0 && len(exp) >= limit {
								break
							}
						}
						got, err := mem.FindLatest(ctx, false, limit, query)
						if err != nil {
							fail("FindLatest(%s, limit %d) failed: %v", desc, limit, err)
							continue
						}
						same := len(got) == len(exp)
						for i := 0; same && i < len(got); i++ {
							same = got[i] == exp[i]
						}
						if !same {
							fail("FindLatest(%s, limit %d) returned %d records, the scan of the log finds %d (newest first)", desc, limit, len(got), len(exp))
						}
					}
				}
			}
			// the *Between helpers over a window that contains the whole history
			for _, s := range tracked {
				anyActive, anyInactive := false, false
				for i := range db {
					anyActive = anyActive || active(db[i], s)
					anyInactive = anyInactive || !active(db[i], s)
				}
				if mem.ActiveBetween(ctx, s, t0, t1) != anyActive {
					fail("ActiveBetween(%s) = %v, the log says %v", s, !anyActive, anyActive)
				}
				if mem.InactiveBetween(ctx, s, t0, t1) != anyInactive {
					fail("InactiveBetween(%s) = %v, the log says %v", s, !anyInactive, anyInactive)
				}
			}
			// ---- Export -> Import on a fresh machine
			data, _, err := m.Export()
			if err != nil {
				fail("Export failed: %v", err)
			} else {
				m2 := am.New(ctx, am.Schema{"A": {}, "B": {Multi: true}, "C": {Remove: am.S{"A"}}}, &am.Opts{Id: "verif-c17"})
				if err := m2.VerifyStates(am.S{"A", "B", "C", am.StateException}); err != nil {
					panic(err)
				}
				if err := m2.Import(data); err != nil {
					fail("Import failed: %v", err)
				} else {
					if fmt.Sprint(m2.Time(nil)) != fmt.Sprint(m.Time(nil)) {
						fail("imported time %v, exported %v", m2.Time(nil), m.Time(nil))
					}
					a1, a2 := slices.Clone(m.ActiveStates(nil)), slices.Clone(m2.ActiveStates(nil))
					slices.Sort(a1)
					slices.Sort(a2)
					if fmt.Sprint(a1) != fmt.Sprint(a2) {
						fail("imported active states %v, exported %v", a2, a1)
					}
					if m2.MachineTick() != m.MachineTick()+1 {
						fail("imported machine tick %d, exported %d (expected one higher)", m2.MachineTick(), m.MachineTick())
					}
				}
			}
			cancel()
			if bad != "" {
				var hs []string
				for _, o := range h {
					hs = append(hs, o.String())
				}
				failing = append(failing, fmt.Sprintf("config=%s history %s => %s", cc.name, strings.Join(hs, " "), bad))
			}
		}
	}
	// Export in the middle of a transition (final handlers, tracer hooks): the exported time is
	// the machine's time at that moment, not the one of the previous transition
	for _, h := range hist {
		if len(h) != 2 {
			continue
		}
		total++
		ctx, cancel := context.WithCancel(context.Background())
		m := am.New(ctx, am.Schema{"A": {}, "B": {Multi: true}, "C": {Remove: am.S{"A"}}}, &am.Opts{Id: "verif-c17"})
		if err := m.VerifyStates(am.S{"A", "B", "C", am.StateException}); err != nil {
			panic(err)
		}
		bad := ""
		tr := &exp{TracerNoOp: &am.TracerNoOp{Id: "verif-exp"}, m: m, bad: &bad}
		m.BindTracer(tr)
		fin := map[string]am.HandlerFinal{}
		for _, n := range names {
			n := n
			fin[n+"State"] = func(e *am.Event) { tr.check(n + "State") }
			fin[n+"End"] = func(e *am.Event) { tr.check(n + "End") }
		}
		if _, err := m.HandlersBindMaps(nil, fin); err != nil {
			panic(err)
		}
		for _, o := range h {
			if o.add {
				m.Add1(o.name, nil)
			} else {
				m.Remove1(o.name, nil)
			}
		}
		cancel()
		if bad != "" {
			failing = append(failing, fmt.Sprintf("export-in-transition history %s %s => %s", h[0], h[1], bad))
		}
	}
	json.NewEncoder(os.Stdout).Encode(map[string]any{"failing": failing, "total": total})
}
`
	tmp, e := os.MkdirTemp("", "gocv-c17b-")
	if e != nil {
		return nil, 0, e
	}
	defer os.RemoveAll(tmp)
	sf := filepath.Join(tmp, "main.go")
	os.WriteFile(sf, []byte(src), 0o644)
	keepStandin("c17_1", src)
	virt := filepath.Join(opts.Repo, "internal", "zz_verif_c17bounded", "main.go")
	ov, _ := json.Marshal(map[string]any{"Replace": map[string]string{virt: sf}})
	ovf := filepath.Join(tmp, "ov.json")
	os.WriteFile(ovf, ov, 0o644)
	ctx, cancel := context.WithTimeout(context.Background(), 10*time.Minute)
	defer cancel()
	cmd := exec.CommandContext(ctx, "go", "run", "-overlay", ovf, "./internal/zz_verif_c17bounded")
	cmd.Dir = opts.Repo
	cmd.Env = append(os.Environ(), "GOFLAGS=-mod=mod", "GOPROXY=off", "AM_LOG=0")
	var outb, errb bytes.Buffer
	cmd.Stdout = &outb
	cmd.Stderr = &errb
	if e := cmd.Run(); e != nil {
		return nil, 0, fmt.Errorf("bounded history stand-in failed: %v: %s", e, firstLines(errb.String(), 12))
	}
	var raw struct {
		Failing []string
		Total   int
	}
	if e := json.Unmarshal(outb.Bytes(), &raw); e != nil {
		return nil, 0, fmt.Errorf("bounded history output: %v (%s)", e, firstLines(outb.String(), 3))
	}
	return raw.Failing, raw.Total, nil
}
