package main

// C19: ground obligations. The shipped schema constants (extracted by
// schemas.go from the working tree) are turned into ground SMT values and the
// well-formedness predicates of the contract file (pkg/machine) are
// instantiated on them; group exclusivity is the generally proved lemma
// group_exclusive whose hypotheses (clique, at most one Add target) are
// discharged on the constants. Groups that do not meet the hypotheses get a
// bounded, exhaustive reachability stand-in on the real resolver (labelled
// bounded, never counted as proved).

import (
	"bytes"
	"context"
	"encoding/json"
	"fmt"
	"go/types"
	"os"
	"os/exec"
	"path/filepath"
	"sort"
	"strings"
	"time"
)

type groundCtx struct {
	fv     *FV
	st     *State
	env    *SpecEnv
	schema Val
}

func (w *World) machineTypes() (schemaT, sT types.Type) {
	p := w.pkgOf(machinePkg)
	if p == nil {
		return nil, nil
	}
	return p.Types.Scope().Lookup("Schema").Type(), p.Types.Scope().Lookup("S").Type()
}

func (fv *FV) groundSeq(names []string, t types.Type) Val {
	arr := fv.constArr("Int", "Str", "str!empty")
	for i, n := range names {
		arr = fmt.Sprintf("(store %s %d %s)", arr, i, fv.sess.strLit(n))
	}
	ref := "0"
	if names != nil {
		ref = "1"
	}
	v := Val{T: fmt.Sprintf("((as mksq (GSeq Str)) %s %d %s)", arr, len(names), ref), S: "(GSeq Str)", Go: t}
	c := fv.sess.fresh("gseq", v.S)
	fv.sess.fact(fmt.Sprintf("(= %s %s)", c, v.T))
	v.T = c
	return v
}

func (fv *FV) groundSchema(ds DumpSchema, schemaT, sT types.Type) Val {
	stSort := fv.sess.sortOf(schemaT.Underlying().(*types.Map).Elem())
	z := fv.zero(schemaT.Underlying().(*types.Map).Elem())
	val := fv.constArr("Str", stSort, z.T)
	dom := "((as const (Array Str Bool)) false)"
	var names []string
	for n := range ds.States {
		names = append(names, n)
	}
	sort.Strings(names)
	for _, n := range names {
		d := ds.States[n]
		b := func(x bool) string {
			if x {
				return "true"
			}
			return "false"
		}
		sv := fmt.Sprintf("(mk_%s %s %s %s %s %s %s %s)", stSort, b(d.Auto), b(d.Multi),
			fv.groundSeq(d.Require, sT).T, fv.groundSeq(d.Add, sT).T, fv.groundSeq(d.Remove, sT).T, fv.groundSeq(d.After, sT).T, fv.groundSeq(nil, sT).T)
		k := fv.sess.strLit(n)
		val = fmt.Sprintf("(store %s %s %s)", val, k, sv)
		dom = fmt.Sprintf("(store %s %s true)", dom, k)
	}
	ms := fmt.Sprintf("(GMap Str %s)", stSort)
	c := fv.sess.fresh("gschema", ms)
	fv.sess.fact(fmt.Sprintf("(= %s ((as mkmp %s) %s %s 1))", c, ms, val, dom))
	return Val{T: c, S: ms, Go: schemaT}
}

// topoRank: a ranking in which every Require target ranks below its source
// (all zeros when the Require graph has a cycle: the obligation then fails).
func topoRank(ds DumpSchema) map[string]int {
	rank := map[string]int{}
	state := map[string]int{}
	cyc := false
	var visit func(n string) int
	visit = func(n string) int {
		if state[n] == 1 {
			cyc = true
			return 0
		}
		if state[n] == 2 {
			return rank[n]
		}
		state[n] = 1
		r := 0
		for _, q := range ds.States[n].Require {
			if _, ok := ds.States[q]; ok {
				if x := visit(q) + 1; x > r {
					r = x
				}
			}
		}
		state[n] = 2
		rank[n] = r
		return r
	}
	var names []string
	for n := range ds.States {
		names = append(names, n)
	}
	sort.Strings(names)
	for _, n := range names {
		visit(n)
	}
	if cyc {
		for n := range rank {
			rank[n] = 0
		}
	}
	return rank
}

func groupsFor(d *SchemaDump, s DumpSchema) map[string][]string {
	base := strings.TrimSuffix(s.Name, "Schema")
	for _, g := range d.Groups {
		if g.Pkg == s.Pkg && g.Name == base+"Groups" {
			return g.Groups
		}
	}
	return nil
}

func namesFor(d *SchemaDump, s DumpSchema) ([]string, bool) {
	base := strings.TrimSuffix(s.Name, "Schema")
	for _, n := range d.Names {
		if n.Pkg == s.Pkg && n.Name == base+"States" {
			return n.Names, true
		}
	}
	return nil, false
}

func isClique(s DumpSchema, g []string) bool {
	for _, x := range g {
		for _, y := range g {
			if x == y {
				continue
			}
			found := false
			for _, r := range s.States[x].Remove {
				if r == y {
					found = true
				}
			}
			if !found {
				return false
			}
		}
	}
	return len(g) >= 2
}

func addTargetsIn(s DumpSchema, g []string) int {
	n := 0
	for _, x := range g {
		hit := false
		for _, st := range s.States {
			for _, a := range st.Add {
				if a == x {
					hit = true
				}
			}
		}
		if hit {
			n++
		}
	}
	return n
}

type boundedGroup struct {
	Pkg, Schema, Group string
	Members            []string
}

// groundResults builds one FuncResult per shipped schema. The predicates are
// the ones written in the pkg/machine contract file; they are evaluated on the
// extracted constants by the concrete evaluator (concrete.go), which decides
// these membership-guarded closed formulas exactly.
func (w *World) groundResults(opts *RunOpts, d *SchemaDump) ([]*FuncResult, []boundedGroup) {
	var out []*FuncResult
	var bounded []boundedGroup
	schemas := append([]DumpSchema(nil), d.Schemas...)
	sort.Slice(schemas, func(i, j int) bool {
		if schemas[i].Pkg != schemas[j].Pkg {
			return schemas[i].Pkg < schemas[j].Pkg
		}
		return schemas[i].Name < schemas[j].Name
	})
	for _, ds := range schemas {
		rel := strings.TrimPrefix(ds.Pkg, repoModule+"/")
		fname := "ground." + strings.ReplaceAll(strings.TrimSuffix(rel, "/states"), "/", "_") + "." + ds.Name
		props := []string{"C19"}
		if strings.HasSuffix(ds.Pkg, "/pkg/node/states") {
			props = append(props, "C15")
		}
		res := &FuncResult{Name: fname, Key: fname, Contract: &Contract{Props: props}, Sess: newSess()}
		sm, strs, maxLen := cSchema(ds)
		names, haveNames := namesFor(d, ds)
		for _, n := range names {
			found := false
			for _, s := range strs {
				if s == n {
					found = true
				}
			}
			if !found {
				strs = append(strs, n)
			}
		}
		if len(names) > maxLen {
			maxLen = len(names)
		}
		gs := groupsFor(d, ds)
		for _, g := range gs {
			if len(g) > maxLen {
				maxLen = len(g)
			}
		}
		env := &cEnv{w: w, names: map[string]any{"schema": sm}, strs: strs, maxInt: maxLen + 1}
		ob := func(label, pred, text string, args ...string) {
			t0 := time.Now()
			ok, err := w.evalGround(pred, env, args...)
			o := &Obl{Name: fname + "#ground." + label, Func: fname, Kind: "ground", Goal: "true", Props: props,
				Text: text + " [" + pred + "]", Solver: "ground-eval", Seconds: time.Since(t0).Seconds()}
			switch {
			case err != "":
				o.Status, o.Output = "error", err
			case ok:
				o.Status = "proved"
			default:
				js, _ := json.Marshal(ds.States)
				o.Status, o.Output = "refuted", "the predicate "+pred+" evaluates to false on the constant extracted from the working tree: "+ds.Pkg+"."+ds.Name+" = "+string(js)
			}
			o.Decided = true
			res.Obls = append(res.Obls, o)
		}
		ob("parse_ok", "NoRequireRemoveConflict", "no state both Requires and Removes the same state (Schema.Parse reports no error)", "schema")
		ob("refs_defined", "RefsDefinedOrException", "every Require/Add/Remove/After target is a state of the schema (Exception, which every machine defines, is allowed)", "schema")
		rank := topoRank(ds)
		rm := &cMap{m: map[string]any{}, def: 0}
		for n, r := range rank {
			rm.m[n] = r
		}
		env.names["rank"] = rm
		ob("require_acyclic", "RequireRanked", "the Require relation has no cycle (a ranking in which every required state ranks lower exists)", "schema", "rank")
		if haveNames {
			env.names["names"] = cSeq(names)
			ob("names_agree", "NamesAgree", "the typed state-name list has no duplicates and names exactly the schema's states (plus Exception)", "schema", "names")
		} else {
			res.Notes = append(res.Notes, "no typed state-name list named after this schema")
		}
		var gnames []string
		for g := range gs {
			gnames = append(gnames, g)
		}
		sort.Strings(gnames)
		for _, gn := range gnames {
			members := gs[gn]
			if !isClique(ds, members) {
				// a group that was an exclusive group on the baseline tree and no
				// longer is one: the obligation is still generated (and refuted)
				if opts.Expected != nil && opts.Expected[fname+"#ground.group_"+gn+".clique"] == "proved" && len(members) >= 2 {
					env.names["g_"+gn] = cSeq(members)
					ob("group_"+gn+".clique", "GroupClique", "members of the group Remove one another (hypothesis of lemma group_exclusive)", "schema", "g_"+gn)
					continue
				}
				if len(members) >= 2 {
					res.Notes = append(res.Notes, fmt.Sprintf("group %s: members do not all Remove one another - outside the statement's exclusive groups", gn))
				}
				continue
			}
			env.names["g_"+gn] = cSeq(members)
			ob("group_"+gn+".clique", "GroupClique", "members of the group Remove one another (hypothesis of lemma group_exclusive)", "schema", "g_"+gn)
			if addTargetsIn(ds, members) <= 1 {
				ob("group_"+gn+".one_add_target", "AtMostOneAddTarget", "at most one member is the target of an Add relation (hypothesis of lemma group_exclusive: exclusivity then holds in every resolved target)", "schema", "g_"+gn)
			} else {
				res.Notes = append(res.Notes, fmt.Sprintf("group %s: more than one member is an Add target - lemma group_exclusive does not apply; bounded reachability stand-in", gn))
				bounded = append(bounded, boundedGroup{ds.Pkg, ds.Name, gn, members})
			}
		}
		out = append(out, res)
	}
	return out, bounded
}

// ---------- bounded stand-in: exhaustive reachability on the real resolver ----------

type BoundedResult struct {
	Schema    string `json:"schema"`
	Group     string `json:"group"`
	States    int    `json:"states_explored"`
	Exhausted bool   `json:"exhausted"`
	Violation string `json:"violation,omitempty"`
	Bound     int    `json:"bound"`
	Kind      string `json:"kind,omitempty"` // "" = exclusive-group reachability, "determinism" = repeated-run comparison
}

func runBoundedGroups(opts *RunOpts, groups []boundedGroup, bound int) ([]BoundedResult, error) {
	budgetS := 240
	if opts.Tier == "thorough" {
		budgetS = 900
	}
	if len(groups) == 0 {
		return nil, nil
	}
	// schema variable import map
	var b bytes.Buffer
	b.WriteString("package main\n\nimport (\n\t\"context\"\n\t\"encoding/json\"\n\t\"os\"\n\t\"sort\"\n\t\"strings\"\n\t\"time\"\n\tam \"" + machinePkg + "\"\n")
	pk := map[string]string{}
	for _, g := range groups {
		if _, ok := pk[g.Pkg]; !ok {
			pk[g.Pkg] = fmt.Sprintf("p%d", len(pk))
			fmt.Fprintf(&b, "\t%s %q\n", pk[g.Pkg], g.Pkg)
		}
	}
	b.WriteString(")\n\n")
	b.WriteString(`type res struct {
	Schema, Group, Violation string
	States               int
	Exhausted            bool
	Bound                int
}

// explore: breadth-first over active sets reachable from the empty machine by
// single-state Add and Remove mutations, each executed by the real machine.
func explore(name, group string, schema am.Schema, members []string, bound int) res {
	r := res{Schema: name, Group: group, Bound: bound}
	var names am.S
	for n := range schema {
		names = append(names, n)
	}
	sort.Strings(names)
	key := func(s am.S) string { c := append(am.S(nil), s...); sort.Strings(c); return strings.Join(c, ",") }
	type op struct {
		add  bool
		name string
	}
	type node struct {
		active am.S
		path   []op
	}
	apply := func(m *am.Machine, o op) {
		if o.add {
			m.Add1(o.name, nil)
		} else {
			m.Remove1(o.name, nil)
		}
	}
	seen := map[string]bool{"": true}
	queue := []node{{}}
	for len(queue) > 0 && r.States < bound && time.Now().Before(deadline) {
		cur := queue[0]
		queue = queue[1:]
		r.States++
		for _, n := range names {
			for _, add := range []bool{true, false} {
				// every state is rebuilt by replaying its mutation path on a fresh real machine
				ctx, cancel := context.WithCancel(context.Background())
				m := am.New(ctx, schema, &am.Opts{Id: "verif-c19"})
				for _, o := range cur.path {
					apply(m, o)
				}
				o := op{add, n}
				apply(m, o)
				act := m.ActiveStates(nil)
				cancel() // asynchronous disposal (Dispose() sleeps 100 ms per machine)
				cnt := 0
				for _, x := range members {
					for _, a := range act {
						if a == x {
							cnt++
						}
					}
				}
				if cnt > 1 && r.Violation == "" {
					w := "Remove"
					if add {
						w = "Add"
					}
					r.Violation = "from {" + key(cur.active) + "} " + w + " " + n + " -> {" + key(act) + "}"
				}
				k := key(act)
				if !seen[k] {
					seen[k] = true
					queue = append(queue, node{act, append(append([]op(nil), cur.path...), o)})
				}
			}
		}
	}
	r.Exhausted = len(queue) == 0
	return r
}

// the whole exploration has a wall-clock budget: it stops (not exhausted, states reported)
// instead of being killed by the harness
var deadline time.Time

func main() {
	deadline = time.Now().Add(` + fmt.Sprint(budgetS) + ` * time.Second)
	var out []res
`)
	for _, g := range groups {
		mj, _ := json.Marshal(g.Members)
		fmt.Fprintf(&b, "\tout = append(out, explore(%q, %q, %s.%s, %s, %d))\n", shortName(g.Pkg)+"."+g.Schema, g.Group, pk[g.Pkg], g.Schema,
			"[]string"+strings.Replace(strings.Replace(string(mj), "[", "{", 1), "]", "}", 1), bound)
	}
	b.WriteString("\tjson.NewEncoder(os.Stdout).Encode(out)\n}\n")
	tmp, err := os.MkdirTemp("", "gocv-c19b-")
	if err != nil {
		return nil, err
	}
	defer os.RemoveAll(tmp)
	src := filepath.Join(tmp, "main.go")
	os.WriteFile(src, b.Bytes(), 0o644)
	virt := filepath.Join(opts.Repo, "internal", "zz_verif_c19bounded", "main.go")
	ov, _ := json.Marshal(map[string]any{"Replace": map[string]string{virt: src}})
	ovf := filepath.Join(tmp, "ov.json")
	os.WriteFile(ovf, ov, 0o644)
	ctx, cancel := context.WithTimeout(context.Background(), 20*time.Minute)
	defer cancel()
	cmd := exec.CommandContext(ctx, "go", "run", "-overlay", ovf, "./internal/zz_verif_c19bounded")
	cmd.Dir = opts.Repo
	cmd.Env = append(os.Environ(), "GOFLAGS=-mod=mod", "GOPROXY=off", "AM_LOG=0")
	var outb, errb bytes.Buffer
	cmd.Stdout = &outb
	cmd.Stderr = &errb
	if err := cmd.Run(); err != nil {
		return nil, fmt.Errorf("bounded stand-in failed: %v: %s", err, firstLines(errb.String(), 12))
	}
	var rs []BoundedResult
	var raw []struct {
		Schema, Group, Violation string
		States               int
		Exhausted            bool
		Bound                int
	}
	if err := json.Unmarshal(outb.Bytes(), &raw); err != nil {
		return nil, fmt.Errorf("bounded stand-in output: %v (%s)", err, firstLines(outb.String(), 3))
	}
	for _, r := range raw {
		rs = append(rs, BoundedResult{Schema: r.Schema, Group: r.Group, States: r.States, Exhausted: r.Exhausted, Violation: r.Violation, Bound: r.Bound})
	}
	return rs, nil
}
