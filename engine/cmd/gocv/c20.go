package main

// C20: bounded stand-in on the real machine for the wait / ask helpers of
// pkg/helpers ("return according to what actually happened to the machine"),
// whose protocol with the machine (check mutations answered through ACheck,
// queue ticks, WhenTicks) is only partly expressible as interface contracts.
// Family: states A, B, W; Enter / Exit vetoes switched on or off;
//   - CantAdd / CantAdd1 / CantRemove / CantRemove1 against CanAdd / CanRemove
//     (possible and impossible mutations), AskAdd / AskRemove against the effect
//     on the machine;
//   - Add1Sync / Remove1Sync executed at once, queued behind a running handler and
//     then accepted, queued and then vetoed;
//   - Add1Async with the awaited state activated by a relation during the
//     mutation, by a handler synchronously, by a goroutine later, and a rejected
//     mutation;
//   - every helper on a disposed machine returns (neutral value) instead of
//     blocking.
// Every call is guarded by a 3 s watchdog ("blocks forever"). Labelled bounded.

import (
	"bytes"
	"context"
	"encoding/json"
	"fmt"
	"os"
	"os/exec"
	"path/filepath"
	"strings"
	"time"
)

func runBoundedHelpers(opts *RunOpts) (failing []string, total int, err error) {
	src := `package main

import (
	"context"
	"encoding/json"
	"fmt"
	"os"
	"time"

	amhelp "` + strings.TrimSuffix(machinePkg, "/machine") + `/helpers"
	am "` + machinePkg + `"
)

// guard runs fn with a watchdog: ok=false means it did not return within 3 s
func guard[T any](fn func() T) (v T, ok bool) {
	ch := make(chan T, 1)
	go func() { ch <- fn() }()
	select {
	case v = <-ch:
		return v, true
	case <-time.After(3 * time.Second):
		return v, false
	}
}

type mk struct {
	m            *am.Machine
	cancel       func()
	vetoEnter    bool // AEnter vetoes
	vetoExit     bool // AExit vetoes
	entered      chan struct{}
	release      chan struct{}
	blockInB     bool
	syncW, goW   bool // BState adds W synchronously / from a goroutine
}

func newMach(vetoEnter, vetoExit bool) *mk {
	ctx, cancel := context.WithCancel(context.Background())
	k := &mk{cancel: cancel, vetoEnter: vetoEnter, vetoExit: vetoExit, entered: make(chan struct{}), release: make(chan struct{})}
	k.m = am.New(ctx, am.Schema{"A": {}, "B": {}, "W": {Multi: true}, "R": {Add: am.S{"W"}}}, &am.Opts{Id: "verif-c20", HandlerTimeout: 5 * time.Second})
	neg := map[string]am.HandlerNegotiation{
		"AEnter": func(e *am.Event) bool { return !k.vetoEnter },
		"AExit":  func(e *am.Event) bool { return !k.vetoExit },
	}
	fin := map[string]am.HandlerFinal{"BState": func(e *am.Event) {
		if k.blockInB {
			close(k.entered)
			<-k.release
		}
		if k.syncW {
			k.m.Add1("W", nil)
		}
		if k.goW {
			go func() { time.Sleep(20 * time.Millisecond); k.m.Add1("W", nil) }()
		}
	}}
	if _, err := k.m.HandlersBindMaps(neg, fin); err != nil {
		panic(err)
	}
	return k
}

func main() {
	var failing []string
	total := 0
	report := func(name, bad string) {
		if bad != "" {
			failing = append(failing, name+" => "+bad)
		}
	}
	// ---- Cant* / Ask* against Can* and the effect on the machine
	for _, veto := range []bool{false, true} {
		for _, kind := range []string{"add", "remove"} {
			total++
			name := fmt.Sprintf("Cant/Ask %s of A, vetoed=%v", kind, veto)
			k := newMach(veto, veto)
			m := k.m
			bad := ""
			if kind == "remove" {
				k.vetoEnter = false
				m.Add1("A", nil)
				k.vetoEnter = veto
			}
			var can am.Result
			var cant, cant1 bool
			var ok1, ok2 bool
			if kind == "add" {
				can = m.CanAdd(am.S{"A"}, nil)
				cant, ok1 = guard(func() bool { return amhelp.CantAdd(m, am.S{"A"}, nil) })
				cant1, ok2 = guard(func() bool { return amhelp.CantAdd1(m, "A", nil) })
			} else {
				can = m.CanRemove(am.S{"A"}, nil)
				cant, ok1 = guard(func() bool { return amhelp.CantRemove(m, am.S{"A"}, nil) })
				cant1, ok2 = guard(func() bool { return amhelp.CantRemove1(m, "A", nil) })
			}
			impossible := can == am.Canceled
			if impossible != veto {
				bad = fmt.Sprintf("scenario: Can* answered %v", can)
			}
			if !ok1 || !ok2 {
				bad += " a Cant* helper blocked"
			} else {
				if cant != impossible {
					bad += fmt.Sprintf(" Cant%s = %v although the machine says impossible=%v", kind, cant, impossible)
				}
				if cant1 != impossible {
					bad += fmt.Sprintf(" Cant%s1 = %v although the machine says impossible=%v", kind, cant1, impossible)
				}
			}
			var res am.Result
			var ok3 bool
			if kind == "add" {
				res, ok3 = guard(func() am.Result { return amhelp.AskAdd1(m, "A", nil) })
			} else {
				res, ok3 = guard(func() am.Result { return amhelp.AskRemove1(m, "A", nil) })
			}
			wantActive := (kind == "add") != veto
			if !ok3 {
				bad += " the Ask* helper blocked"
			} else {
				if (res == am.Canceled) != veto {
					bad += fmt.Sprintf(" Ask%s returned %v for a mutation that is possible=%v", kind, res, !veto)
				}
				if m.Is1("A") != wantActive {
					bad += fmt.Sprintf(" after Ask%s A active=%v, expected %v", kind, m.Is1("A"), wantActive)
				}
			}
			k.cancel()
			report(name, bad)
		}
	}
	// ---- Add1Sync / Remove1Sync: at once, queued then accepted, queued then vetoed
	for _, kind := range []string{"add", "remove"} {
		for _, how := range []string{"at-once", "queued-accepted", "queued-vetoed", "at-once-vetoed"} {
			total++
			name := fmt.Sprintf("%s1Sync of A, %s", kind, how)
			veto := how == "queued-vetoed" || how == "at-once-vetoed"
			k := newMach(false, false)
			m := k.m
			if kind == "remove" {
				m.Add1("A", nil)
			}
			k.vetoEnter, k.vetoExit = veto, veto
			call := func() bool {
				if kind == "add" {
					return amhelp.Add1Sync(context.Background(), m, "A")
				}
				return amhelp.Remove1Sync(context.Background(), m, "A")
			}
			bad := ""
			var got, ok bool
			if how == "at-once" || how == "at-once-vetoed" {
				got, ok = guard(call)
			} else {
				k.blockInB = true
				go m.Add1("B", nil)
				<-k.entered
				ch := make(chan [2]bool, 1)
				go func() { g, o := guard(call); ch <- [2]bool{g, o} }()
				time.Sleep(50 * time.Millisecond)
				close(k.release)
				r := <-ch
				got, ok = r[0], r[1]
			}
			happened := m.Is1("A") == (kind == "add")
			if happened == veto {
				bad = fmt.Sprintf("scenario: A active=%v", m.Is1("A"))
			}
			if !ok {
				bad += " the helper blocked"
			} else if got != happened {
				bad += fmt.Sprintf(" returned %v although the mutation took effect=%v", got, happened)
			}
			k.cancel()
			report(name, bad)
		}
	}
	// ---- Add1Async: the awaited state W activated during the mutation call or later
	for _, how := range []string{"relation", "handler-sync", "handler-goroutine", "rejected"} {
		total++
		name := "Add1Async waiting for W, " + how
		k := newMach(how == "rejected", false)
		m := k.m
		ctx, cancelCtx := context.WithTimeout(context.Background(), time.Second)
		add := "B"
		switch how {
		case "relation":
			add = "R"
		case "handler-sync":
			k.syncW = true
		case "handler-goroutine":
			k.goW = true
		case "rejected":
			add = "A"
		}
		got, ok := guard(func() bool { return amhelp.Add1Async(ctx, m, "W", add) })
		cancelCtx()
		bad := ""
		want := how != "rejected"
		if !ok {
			bad = "the helper blocked"
		} else if got != want {
			bad = fmt.Sprintf("returned %v, expected %v (W active=%v)", got, want, m.Is1("W"))
		}
		k.cancel()
		report(name, bad)
	}
	// ---- WaitFor* : nil iff the awaited channels closed; a timeout is ErrTimeout; the Err
	// variants report the machine's error when it occurs during the wait
	for _, helper := range []string{"WaitForAny", "WaitForAll", "WaitForErrAny", "WaitForErrAll"} {
		for _, what := range []string{"closes", "timeout", "error"} {
			if what == "error" && (helper == "WaitForAny" || helper == "WaitForAll") {
				continue
			}
			total++
			name := helper + ", " + what
			bad := ""
			reps := 1
			if what == "timeout" {
				reps = 12 // a ready case is chosen at random: every run must say timeout
			}
			for i := 0; i < reps && bad == ""; i++ {
				k := newMach(false, false)
				m := k.m
				ch := make(chan struct{})
				timeout := 2 * time.Second
				switch what {
				case "closes":
					go func() { time.Sleep(20 * time.Millisecond); close(ch) }()
				case "timeout":
					timeout = 40 * time.Millisecond
				case "error":
					go func() { time.Sleep(20 * time.Millisecond); m.AddErr(fmt.Errorf("boom-wait"), nil) }()
				}
				start := time.Now()
				err, ok := guard(func() error {
					switch helper {
					case "WaitForAny":
						return amhelp.WaitForAny(context.Background(), timeout, ch)
					case "WaitForAll":
						return amhelp.WaitForAll(context.Background(), timeout, ch)
					case "WaitForErrAny":
						return amhelp.WaitForErrAny(context.Background(), timeout, m, ch)
					}
					return amhelp.WaitForErrAll(context.Background(), timeout, m, ch)
				})
				took := time.Since(start)
				switch {
				case !ok:
					bad = "the helper blocked"
				case what == "closes" && err != nil:
					bad = fmt.Sprintf("returned %v although the channel closed", err)
				case what == "timeout" && err == nil:
					bad = "returned nil (success) although nothing happened before the timeout"
				case what == "error" && (err == nil || took > time.Second):
					bad = fmt.Sprintf("returned %v after %v although the machine got an error 20ms into the wait", err, took.Round(time.Millisecond))
				}
				k.cancel()
			}
			report(name, bad)
		}
	}
	// ---- disposed machine: every helper returns
	{
		total++
		k := newMach(false, false)
		m := k.m
		m.Dispose()
		<-m.WhenDisposed()
		bad := ""
		chk := func(what string, fn func() bool) {
			if _, ok := guard(fn); !ok {
				bad += " " + what + " blocked"
			}
		}
		chk("CantAdd", func() bool { return amhelp.CantAdd(m, am.S{"A"}, nil) })
		chk("CantRemove", func() bool { return amhelp.CantRemove(m, am.S{"A"}, nil) })
		chk("CantAdd1", func() bool { return amhelp.CantAdd1(m, "A", nil) })
		chk("AskAdd1", func() bool { return amhelp.AskAdd1(m, "A", nil) == am.Canceled })
		chk("AskRemove1", func() bool { return amhelp.AskRemove1(m, "A", nil) == am.Canceled })
		chk("Add1Sync", func() bool { return amhelp.Add1Sync(context.Background(), m, "A") })
		chk("Remove1Sync", func() bool { return amhelp.Remove1Sync(context.Background(), m, "A") })
		ctx, cancelCtx := context.WithTimeout(context.Background(), 500*time.Millisecond)
		chk("Add1Async", func() bool { return amhelp.Add1Async(ctx, m, "W", "B") })
		cancelCtx()
		k.cancel()
		report("helpers on a disposed machine", bad)
	}
	json.NewEncoder(os.Stdout).Encode(map[string]any{"failing": failing, "total": total})
}
`
	tmp, e := os.MkdirTemp("", "gocv-c20b-")
	if e != nil {
		return nil, 0, e
	}
	defer os.RemoveAll(tmp)
	sf := filepath.Join(tmp, "main.go")
	os.WriteFile(sf, []byte(src), 0o644)
	keepStandin("c20_1", src)
	virt := filepath.Join(opts.Repo, "internal", "zz_verif_c20bounded", "main.go")
	ov, _ := json.Marshal(map[string]any{"Replace": map[string]string{virt: sf}})
	ovf := filepath.Join(tmp, "ov.json")
	os.WriteFile(ovf, ov, 0o644)
	runOnce := func() ([]string, int, error) {
		ctx, cancel := context.WithTimeout(context.Background(), 10*time.Minute)
		defer cancel()
		cmd := exec.CommandContext(ctx, "go", "run", "-overlay", ovf, "./internal/zz_verif_c20bounded")
		cmd.Dir = opts.Repo
		cmd.Env = append(os.Environ(), "GOFLAGS=-mod=mod", "GOPROXY=off", "AM_LOG=0")
		var outb, errb bytes.Buffer
		cmd.Stdout = &outb
		cmd.Stderr = &errb
		if e := cmd.Run(); e != nil {
			return nil, 0, fmt.Errorf("bounded helpers stand-in failed: %v: %s", e, firstLines(errb.String(), 12))
		}
		var raw struct {
			Failing []string
			Total   int
		}
		if e := json.Unmarshal(outb.Bytes(), &raw); e != nil {
			return nil, 0, fmt.Errorf("bounded helpers output: %v (%s)", e, firstLines(outb.String(), 3))
		}
		return raw.Failing, raw.Total, nil
	}
	f1, total, e := runOnce()
	if e != nil || len(f1) == 0 {
		return f1, total, e
	}
	// the family waits on goroutines and timeouts: a case is reported only if it fails in two
	// runs in a row (scheduling noise on a loaded machine)
	f2, _, e := runOnce()
	if e != nil {
		return nil, 0, e
	}
	again := map[string]bool{}
	for _, f := range f2 {
		if i := strings.Index(f, " => "); i >= 0 {
			again[f[:i]] = true
		}
	}
	for _, f := range f1 {
		if i := strings.Index(f, " => "); i >= 0 && again[f[:i]] {
			failing = append(failing, f)
		}
	}
	return failing, total, nil
}
