package main

// Calls: builtins, modelled standard-library functions, callee contracts,
// inlining, closures, sync/atomic and mutex ghost state.

import (
	"fmt"
	"go/ast"
	"go/token"
	"go/types"
	"strings"

	"golang.org/x/tools/go/packages"
)

const maxInlineDepth = 4

func funcFullName(fn *types.Func) string {
	sig := fn.Type().(*types.Signature)
	pkg := ""
	if fn.Pkg() != nil {
		pkg = fn.Pkg().Path()
	}
	if r := sig.Recv(); r != nil {
		if n := namedOf(r.Type()); n != nil {
			return pkg + "." + n.Obj().Name() + "." + fn.Name()
		}
		// interface method
		return pkg + ".?." + fn.Name()
	}
	return pkg + "." + fn.Name()
}

// calleeOf resolves the static callee of a call expression.
func (fv *FV) calleeOf(call *ast.CallExpr) (fn *types.Func, recvExpr ast.Expr, isIface bool) {
	info := fv.info()
	fun := call.Fun
	for {
		switch f := fun.(type) {
		case *ast.ParenExpr:
			fun = f.X
			continue
		case *ast.IndexExpr:
			fun = f.X
			continue
		case *ast.IndexListExpr:
			fun = f.X
			continue
		}
		break
	}
	switch f := fun.(type) {
	case *ast.Ident:
		if o, ok := info.Uses[f].(*types.Func); ok {
			return o, nil, false
		}
	case *ast.SelectorExpr:
		if sel := info.Selections[f]; sel != nil {
			if sel.Kind() == types.MethodVal {
				o := sel.Obj().(*types.Func)
				_, iface := types.Unalias(sel.Recv()).Underlying().(*types.Interface)
				if tp, ok := types.Unalias(sel.Recv()).(*types.TypeParam); ok {
					_ = tp
					iface = true
				}
				return o, f.X, iface
			}
			return nil, nil, false
		}
		if o, ok := info.Uses[f.Sel].(*types.Func); ok {
			return o, nil, false
		}
	}
	return nil, nil, false
}

func (fv *FV) evalArgs(st *State, call *ast.CallExpr, sig *types.Signature) []Val {
	var args []Val
	np := sig.Params().Len()
	if len(call.Args) == 1 && np > 1 {
		// f(g()) multi-value
		return fv.evalMulti(st, call.Args[0])
	}
	for i, a := range call.Args {
		if sig.Variadic() && i >= np-1 {
			break
		}
		v := fv.eval(st, a)
		if i < np {
			v = fv.convertTo(st, v, sig.Params().At(i).Type())
		}
		args = append(args, v)
	}
	if sig.Variadic() {
		vt := sig.Params().At(np - 1).Type()
		if call.Ellipsis.IsValid() {
			v := fv.eval(st, call.Args[len(call.Args)-1])
			args = append(args, fv.convertTo(st, v, vt))
		} else {
			et := vt.(*types.Slice).Elem()
			es := fv.sess.sortOf(et)
			extra := call.Args[min(np-1, len(call.Args)):]
			if len(extra) == 0 {
				args = append(args, fv.zero(vt))
			} else {
				z := fv.zero(et)
				arr := fv.constArr("Int", es, z.T)
				for i, a := range extra {
					v := fv.convertTo(st, fv.eval(st, a), et)
					if v.Clos != nil {
						v = Val{T: "nil!Any", S: "Any"}
					}
					arr = fmt.Sprintf("(store %s %d %s)", arr, i, v.T)
				}
				args = append(args, fv.name("varargs", Val{T: fmt.Sprintf("((as mksq %s) %s %d %s)", fmt.Sprintf("(GSeq %s)", es), arr, len(extra), fv.newRef()), S: fmt.Sprintf("(GSeq %s)", es), Go: vt}))
			}
		}
	}
	return args
}

func (fv *FV) evalCall(st *State, call *ast.CallExpr) []Val {
	fv.curState = st
	info := fv.info()
	// conversion?
	if tv, ok := info.Types[call.Fun]; ok && tv.IsType() {
		v := fv.eval(st, call.Args[0])
		return []Val{fv.conversion(st, v, info.TypeOf(call.Args[0]), tv.Type, call)}
	}
	// builtin?
	if id, ok := unparen(call.Fun).(*ast.Ident); ok {
		if b, ok := info.Uses[id].(*types.Builtin); ok {
			return fv.evalBuiltin(st, call, b.Name())
		}
	}
	fn, recvExpr, isIface := fv.calleeOf(call)
	if fn == nil {
		// call of a function value: closure / local func / field callback
		fval := fv.eval(st, call.Fun)
		if fval.Clos != nil {
			sig := info.TypeOf(call.Fun).Underlying().(*types.Signature)
			args := fv.evalArgs(st, call, sig)
			return fv.callClosure(st, fval.Clos, args, call)
		}
		sig, _ := info.TypeOf(call.Fun).Underlying().(*types.Signature)
		if sig == nil {
			fv.unsupported("call of non-function %s", fv.exprText(call.Fun))
		}
		args := fv.evalArgs(st, call, sig)
		// a function-typed parameter of the function under verification is an
		// uninterpreted (pure, deterministic) function of its arguments: the
		// same symbol the contract's `fn(...)` denotes
		if id, ok := unparen(call.Fun).(*ast.Ident); ok && sig.Results().Len() == 1 {
			if po, ok := info.Uses[id].(*types.Var); ok && fv.isTopParam(po) {
				fv.assumed["function parameter "+id.Name+" of "+fv.fname+" is treated as a pure, deterministic function (callers passing closures are checked for syntactic purity)"] = true
				return []Val{fv.applyUF(fval, args, sig.Results().At(0).Type())}
			}
		}
		return fv.opaqueCall(st, "callback "+fv.exprText(call.Fun), sig, call)
	}
	sig := fn.Type().(*types.Signature)
	// instantiated signature for generics
	if tsig, ok := info.TypeOf(call.Fun).(*types.Signature); ok {
		if sig.TypeParams() != nil && sig.TypeParams().Len() > 0 {
			sig2 := tsig
			_ = sig2
		}
	}
	full := funcFullName(fn)
	// receiver
	var recv *Val
	if recvExpr != nil {
		// library receivers handled by location
		if r, done := fv.libMethod(st, call, fn, recvExpr); done {
			return r
		}
		rv := fv.eval(st, recvExpr)
		// auto address / deref
		rt := info.TypeOf(recvExpr)
		// promoted method: walk the implicit embedded-field path to the real receiver
		if se, ok := unparen(call.Fun).(*ast.SelectorExpr); ok && !isIface {
			if sel := info.Selections[se]; sel != nil && len(sel.Index()) > 1 {
				for _, idx := range sel.Index()[:len(sel.Index())-1] {
					stt := structOf(rt)
					if stt == nil || idx >= stt.NumFields() {
						fv.unsupported("promoted method through a non-struct")
					}
					f := stt.Field(idx)
					rv = fv.stepField(st, rv, rt, f, recvExpr)
					rt = f.Type()
				}
			}
		}
		if sig.Recv() != nil {
			wantPtr := isPointer(sig.Recv().Type())
			havePtr := isPointer(rt)
			if wantPtr && !havePtr {
				// method with pointer receiver on addressable value: copy-in/out
				// not supported in general
				if !isIface {
					rv = fv.addrOfValue(st, recvExpr, rv, rt)
				}
			} else if !wantPtr && havePtr {
				fv.safe(st, "nil", recvExpr, fmt.Sprintf("(not (= %s 0))", rv.T))
				rv = fv.derefStruct(st, rv.T, types.Unalias(rt).Underlying().(*types.Pointer).Elem())
			}
		}
		recv = &rv
	}
	isig := sig
	if ts, ok := info.TypeOf(call.Fun).(*types.Signature); ok {
		isig = ts
	}
	if full == "slices.Collect" && len(call.Args) == 1 {
		if inner, ok := unparen(call.Args[0]).(*ast.CallExpr); ok {
			if ifn, _, _ := fv.calleeOf(inner); ifn != nil && funcFullName(ifn) == "maps.Keys" {
				m := fv.eval(st, inner.Args[0])
				if r, done := fv.stdlibCall(st, call, fn, full, nil, []Val{m}, isig); done {
					return r
				}
			}
		}
	}
	args := fv.evalArgs(st, call, isig)
	if r, done := fv.stdlibCall(st, call, fn, full, recv, args, isig); done {
		return r
	}
	// contract?
	if c := fv.w.contractFor(full); c != nil && !(fv.fn.top && false) {
		all := args
		if recv != nil {
			all = append([]Val{*recv}, args...)
		}
		return fv.callByContract(st, c, fn, isig, all, call)
	}
	if isIface {
		return fv.opaqueCall(st, "interface method "+full, isig, call)
	}
	// inline?
	if d := fv.w.declOf(fn); d != nil && d.decl.Body != nil && fv.inlineDepth < maxInlineDepth && !fv.w.inlining[fn] {
		return fv.inlineCall(st, d, fn, recv, args, call)
	}
	if fv.w.isTrustedPure(full) {
		fv.note("call %s: assumed pure (speclib trusted list), result unconstrained", full)
		rs := fv.havocResults(isig, full)
		if (full == "fmt.Errorf" || full == "errors.New") && len(rs) == 1 && rs[0].S == "Any" {
			// these constructors never return a nil error
			fv.assume(st, fmt.Sprintf("(not (= %s nil!Any))", rs[0].T))
		}
		return rs
	}
	fv.unsupported("call to %s: no contract, not inlinable, not in the trusted list", full)
	return nil
}

func unparen(e ast.Expr) ast.Expr {
	for {
		p, ok := e.(*ast.ParenExpr)
		if !ok {
			return e
		}
		e = p.X
	}
}

// allocAbove: the allocation counter is at least ref afterwards.
func (fv *FV) allocAbove(st *State, ref string) {
	if fv.pure > 0 {
		return
	}
	a2 := fv.sess.fresh("alloc", "Int")
	fv.sess.fact(fmt.Sprintf("(and (>= %s %s) (>= %s %s))", a2, fv.allocCur(st), a2, ref))
	st.heap["$alloc"] = Val{T: a2, S: "Int"}
}

func (fv *FV) isTopParam(o *types.Var) bool {
	if fv.fn == nil || !fv.fn.top || fv.fn.sig == nil {
		return false
	}
	ps := fv.fn.sig.Params()
	for i := 0; i < ps.Len(); i++ {
		if ps.At(i) == o {
			return true
		}
	}
	return false
}

// applyUF: application of an opaque function value as an uninterpreted function.
func (fv *FV) applyUF(f Val, args []Val, rt types.Type) Val {
	var sorts, ts []string
	for _, a := range args {
		sorts = append(sorts, a.S)
		ts = append(ts, a.T)
	}
	rs := fv.sess.sortOf(rt)
	fn := "apply_" + sanitize(strings.Join(sorts, "_")) + "_to_" + sanitize(rs)
	fv.sess.decl("fn:"+fn, fmt.Sprintf("(declare-fun %s (Any %s) %s)", fn, strings.Join(sorts, " "), rs))
	return Val{T: fmt.Sprintf("(%s %s %s)", fn, f.T, strings.Join(ts, " ")), S: rs, Go: rt}
}

func (fv *FV) havocResults(sig *types.Signature, what string) []Val {
	var out []Val
	for i := 0; i < sig.Results().Len(); i++ {
		out = append(out, fv.freshVal("r_"+lastSeg(what), sig.Results().At(i).Type()))
	}
	return out
}

func lastSeg(s string) string {
	if k := strings.LastIndexAny(s, "./ "); k >= 0 {
		return s[k+1:]
	}
	return s
}

func (fv *FV) opaqueCall(st *State, what string, sig *types.Signature, call *ast.CallExpr) []Val {
	fv.note("%s: opaque (result unconstrained; assumed to assign nothing of the modelled state except through its own API)", what)
	return fv.havocResults(sig, what)
}

func (fv *FV) addrOfValue(st *State, e ast.Expr, v Val, t types.Type) Val {
	fv.note("implicit address-of %s: modelled as fresh copy", fv.exprText(e))
	return fv.allocFrom(st, v, t, types.NewPointer(t))
}

// ---------- conversions T(x) ----------

func (fv *FV) conversion(st *State, v Val, from, to types.Type, at ast.Node) Val {
	ts := fv.sess.sortOf(to)
	if ts == "Int" && v.S == "Int" {
		if m := uintMod(to); m != "" {
			// value-preserving if source range fits
			if fm := uintMod(from); fm != "" && len(fm) <= len(m) && (len(fm) < len(m) || fm <= m) {
				return Val{T: v.T, S: "Int", Go: to}
			}
			return Val{T: fmt.Sprintf("(mod %s %s)", v.T, m), S: "Int", Go: to}
		}
		// signed target: assume in range unless narrowing from wider unsigned
		if b, ok := types.Unalias(to).Underlying().(*types.Basic); ok {
			lo, hi := intBounds(b)
			if lo != "" && b.Kind() != types.Int && b.Kind() != types.Int64 {
				// narrow signed: wrap explicitly
				var bits string
				switch b.Kind() {
				case types.Int8:
					bits = "256"
				case types.Int16:
					bits = "65536"
				case types.Int32:
					bits = "4294967296"
				}
				if bits != "" {
					_ = hi
					return Val{T: fmt.Sprintf("(let ((w!c (mod %s %s))) (ite (> w!c %s) (- w!c %s) w!c))", v.T, bits, hi, bits), S: "Int", Go: to}
				}
			}
			if b.Kind() == types.Int || b.Kind() == types.Int64 {
				if fm := uintMod(from); fm == "18446744073709551616" {
					return Val{T: fmt.Sprintf("(ite (> %s 9223372036854775807) (- %s 18446744073709551616) %s)", v.T, v.T, v.T), S: "Int", Go: to}
				}
			}
		}
		return Val{T: v.T, S: "Int", Go: to}
	}
	if v.S == ts {
		v.Go = to
		return v
	}
	if ts == "Str" && v.S == "Int" {
		fv.sess.decl("fn:str.fromint", "(declare-fun s.fromrune (Int) Str)")
		return Val{T: fmt.Sprintf("(s.fromrune %s)", v.T), S: "Str", Go: to}
	}
	if ts == "Str" && strings.HasPrefix(v.S, "(GSeq ") {
		fv.sess.decl("fn:s.frombytes", fmt.Sprintf("(declare-fun s.frombytes (%s) Str)", v.S))
		return Val{T: fmt.Sprintf("(s.frombytes %s)", v.T), S: "Str", Go: to}
	}
	if strings.HasPrefix(ts, "(GSeq ") && v.S == "Str" {
		fv.note("string to slice conversion: result unconstrained")
		return fv.freshVal("conv", to)
	}
	return fv.convertTo(st, v, to)
}

// ---------- builtins ----------

func (fv *FV) evalBuiltin(st *State, call *ast.CallExpr, name string) []Val {
	info := fv.info()
	t := info.TypeOf(call)
	switch name {
	case "len", "cap":
		v := fv.eval(st, call.Args[0])
		switch {
		case strings.HasPrefix(v.S, "(GSeq "):
			if name == "cap" {
				c := fv.freshVal("cap", types.Typ[types.Int])
				fv.assume(st, fmt.Sprintf("(>= %s (sq.len %s))", c.T, v.T))
				return []Val{c}
			}
			return []Val{{T: fmt.Sprintf("(sq.len %s)", v.T), S: "Int", Go: t}}
		case v.S == "Str":
			return []Val{{T: fmt.Sprintf("(strlen %s)", v.T), S: "Int", Go: t}}
		case strings.HasPrefix(v.S, "(GMap "):
			k, vv := mapSorts(v.S)
			fn := "maplen_" + sanitize(k) + "_" + sanitize(vv)
			fv.sess.decl("fn:"+fn, fmt.Sprintf("(declare-fun %s (%s) Int)", fn, v.S))
			fv.sess.decl("ax:"+fn, fmt.Sprintf("(assert (forall ((m %s)) (! (>= (%s m) 0) :pattern ((%s m)))))", v.S, fn, fn))
			fv.sess.decl("ax2:"+fn, fmt.Sprintf("(assert (forall ((m %s) (k %s)) (! (=> (select (mp.dom m) k) (> (%s m) 0)) :pattern ((%s m) (select (mp.dom m) k)))))", v.S, k, fn, fn))
			fv.sess.decl("ax3:"+fn, fmt.Sprintf("(assert (forall ((m %s)) (! (=> (= (mp.dom m) ((as const (Array %s Bool)) false)) (= (%s m) 0)) :pattern ((%s m)))))", v.S, k, fn, fn))
			return []Val{{T: fmt.Sprintf("(%s %s)", fn, v.T), S: "Int", Go: t}}
		case v.S == "Int":
			// channel
			c := fv.freshVal("chanlen", types.Typ[types.Int])
			fv.assume(st, fmt.Sprintf("(>= %s 0)", c.T))
			return []Val{c}
		}
		fv.unsupported("len of %s", v.S)
	case "append":
		s := fv.eval(st, call.Args[0])
		st0 := info.TypeOf(call.Args[0])
		et := elemType(underCore(st0))
		if call.Ellipsis.IsValid() {
			o := fv.eval(st, call.Args[1])
			if o.S == "Str" {
				fv.note("append(bytes, string...): unconstrained")
				return []Val{fv.freshVal("app", t)}
			}
			return []Val{fv.concatSeq(st, s, o, t)}
		}
		cur := s
		arr := fmt.Sprintf("(sq.arr %s)", s.T)
		n := 0
		var appended []string
		for _, a := range call.Args[1:] {
			v := fv.convertTo(st, fv.eval(st, a), et)
			if v.Clos != nil {
				v = Val{T: "nil!Any", S: "Any"}
			}
			appended = append(appended, v.T)
			if n == 0 {
				arr = fmt.Sprintf("(store %s (sq.len %s) %s)", arr, s.T, v.T)
			} else {
				arr = fmt.Sprintf("(store %s (+ (sq.len %s) %d) %s)", arr, s.T, n, v.T)
			}
			n++
		}
		if n == 0 {
			return []Val{cur}
		}
		ref := fv.appendRef(st, s)
		res := fv.nameAlways("app", Val{T: fmt.Sprintf("((as mksq %s) %s (+ (sq.len %s) %d) %s)", s.S, arr, s.T, n, ref), S: s.S, Go: t})
		if fv.pure == 0 {
			// derived fact of the model: membership in the result
			mem := fv.sess.fnMem(seqElemSort(s.S))
			var eqs []string
			for _, a := range appended {
				eqs = append(eqs, fmt.Sprintf("(= x!q %s)", a))
			}
			fv.assumeHint(st, mem, fmt.Sprintf("(forall ((x!q %s)) (! (= (%s %s x!q) (or (%s %s x!q) %s)) :pattern ((%s %s x!q)) :pattern ((%s %s x!q))))",
				seqElemSort(s.S), mem, res.T, mem, s.T, strings.Join(eqs, " "), mem, res.T, mem, s.T))
			for _, a := range appended {
				fv.assumeHint(st, mem, fmt.Sprintf("(%s %s %s)", mem, res.T, a))
			}
		}
		return []Val{res}
	case "make":
		switch u := underCore(t).(type) {
		case *types.Slice:
			n := fv.eval(st, call.Args[1])
			fv.safe(st, "make", call, fmt.Sprintf("(>= %s 0)", n.T))
			z := fv.zero(u.Elem())
			return []Val{fv.name("mk", Val{T: fmt.Sprintf("((as mksq %s) %s %s %s)", fv.sess.sortOf(t), fv.constArr("Int", z.S, z.T), n.T, fv.newRef()), S: fv.sess.sortOf(t), Go: t})}
		case *types.Map:
			ks, vs := fv.sess.sortOf(u.Key()), fv.sess.sortOf(u.Elem())
			z := fv.zero(u.Elem())
			return []Val{{T: fmt.Sprintf("((as mkmp %s) %s ((as const (Array %s Bool)) false) %s)", fv.sess.sortOf(t), fv.constArr(ks, vs, z.T), ks, fv.newRef()), S: fv.sess.sortOf(t), Go: t}}
		case *types.Chan:
			c := fv.freshVal("chan", t)
			fv.assume(st, fmt.Sprintf("(> %s %s)", c.T, fv.allocCur(st)))
			st.heap["$alloc"] = Val{T: c.T, S: "Int"}
			fv.setChanClosed(st, c.T, "false")
			return []Val{c}
		}
		fv.unsupported("make(%s)", t)
	case "new":
		pe := types.Unalias(t).Underlying().(*types.Pointer).Elem()
		return []Val{fv.allocFrom(st, fv.zero(pe), pe, t)}
	case "delete":
		m := fv.eval(st, call.Args[0])
		mt := underCore(info.TypeOf(call.Args[0])).(*types.Map)
		k := fv.convertTo(st, fv.eval(st, call.Args[1]), mt.Key())
		nv := Val{T: fmt.Sprintf("((as mkmp %s) (mp.val %s) (store (mp.dom %s) %s false) (mp.ref %s))", m.S, m.T, m.T, k.T, m.T), S: m.S, Go: m.Go}
		fv.assign(st, call.Args[0], nv)
		return nil
	case "copy":
		dst := fv.eval(st, call.Args[0])
		src := fv.eval(st, call.Args[1])
		if src.S != dst.S {
			fv.unsupported("copy with different element sorts")
		}
		n := fmt.Sprintf("(ite (< (sq.len %s) (sq.len %s)) (sq.len %s) (sq.len %s))", dst.T, src.T, dst.T, src.T)
		r := fv.freshSort("cpy", dst.S)
		fv.assume(st, fmt.Sprintf("(and (= (sq.len %s) (sq.len %s)) (= (sq.ref %s) (sq.ref %s)) (forall ((i!q Int)) (! (= (select (sq.arr %s) i!q) (ite (and (<= 0 i!q) (< i!q %s)) (select (sq.arr %s) i!q) (select (sq.arr %s) i!q))) :pattern ((select (sq.arr %s) i!q)))))",
			r.T, dst.T, r.T, dst.T, r.T, n, src.T, dst.T, r.T))
		r.Go = dst.Go
		fv.assign(st, call.Args[0], r)
		return []Val{{T: n, S: "Int", Go: types.Typ[types.Int]}}
	case "panic":
		fv.eval(st, call.Args[0])
		if fv.fn.top || fv.inlineDepth > 0 {
			if fv.contract == nil || !contractAllowsPanic(fv.contract) {
				fv.oblige(st, "safe.panic", "("+fv.exprText(call)+")", "false", "explicit panic unreachable", call.Pos())
			}
		}
		return nil
	case "min", "max":
		vals := make([]Val, len(call.Args))
		for i, a := range call.Args {
			vals[i] = fv.eval(st, a)
		}
		cur := vals[0].T
		op := "<"
		if name == "max" {
			op = ">"
		}
		for _, v := range vals[1:] {
			cur = fmt.Sprintf("(ite (%s %s %s) %s %s)", op, v.T, cur, v.T, cur)
		}
		return []Val{{T: cur, S: vals[0].S, Go: t}}
	case "close":
		c := fv.eval(st, call.Args[0])
		fv.oblige(st, "safe.close", "("+fv.exprText(call.Args[0])+")", not(fv.chanClosed(st, c.T)), "close of closed channel", call.Pos())
		fv.setChanClosed(st, c.T, "true")
		return nil
	case "recover":
		fv.note("recover(): returns unconstrained value")
		return []Val{fv.freshVal("recovered", types.NewInterfaceType(nil, nil))}
	case "print", "println":
		return nil
	case "clear":
		fv.unsupported("clear")
	}
	fv.unsupported("builtin %s", name)
	return nil
}

func contractAllowsPanic(c *Contract) bool {
	for _, a := range c.Abstracts {
		if strings.HasPrefix(a, "panics") {
			return true
		}
	}
	return false
}

func (fv *FV) chanClosed(st *State, ch string) string {
	h := fv.heapGet(st, "chan.closed", "Bool", nil)
	return fmt.Sprintf("(select %s %s)", h.T, ch)
}

func (fv *FV) setChanClosed(st *State, ch, val string) {
	h := fv.heapGet(st, "chan.closed", "Bool", nil)
	st.heap["chan.closed"] = fv.name("H", Val{T: fmt.Sprintf("(store %s %s %s)", h.T, ch, val), S: h.S})
	fv.writtenHeap["chan.closed"] = true
}

// appendRef: identity of the result of append. When the input is nil the
// result is a new array; otherwise it may or may not alias.
func (fv *FV) appendRef(st *State, s Val) string {
	if fv.pure > 0 {
		return "1"
	}
	r := fv.sess.fresh("ref", "Int")
	cur := fv.allocCur(st)
	fv.sess.fact(fmt.Sprintf("(and (> %s 0) (or (> %s %s) (= %s (sq.ref %s))))", r, r, cur, r, s.T))
	a2 := fv.sess.fresh("alloc", "Int")
	fv.sess.fact(fmt.Sprintf("(and (>= %s %s) (>= %s %s))", a2, cur, a2, r))
	st.heap["$alloc"] = Val{T: a2, S: "Int"}
	return r
}

func (fv *FV) concatSeq(st *State, a, b Val, t types.Type) Val {
	if a.S != b.S {
		fv.unsupported("concat of different sorts %s %s", a.S, b.S)
	}
	r := fv.freshSort("cat", a.S)
	r.Go = t
	fv.assume(st, fmt.Sprintf("(and (= (sq.len %s) (+ (sq.len %s) (sq.len %s))) (>= (sq.ref %s) 0) (=> (> (sq.len %s) 0) (> (sq.ref %s) 0)) (=> (= (sq.len %s) 0) (= (sq.ref %s) (sq.ref %s))) (forall ((i!q Int)) (! (= (select (sq.arr %s) i!q) (ite (< i!q (sq.len %s)) (select (sq.arr %s) i!q) (select (sq.arr %s) (- i!q (sq.len %s))))) :pattern ((select (sq.arr %s) i!q)))))",
		r.T, a.T, b.T, r.T, r.T, r.T, b.T, r.T, a.T, r.T, a.T, a.T, b.T, a.T, r.T))
	// derived facts of the same model, stated for instantiation in the other
	// direction (triggered by reads of the operands) and for membership
	es := seqElemSort(a.S)
	mem := fv.sess.fnMem(es)
	fv.assume(st, fmt.Sprintf("(forall ((i!q Int)) (! (=> (and (<= 0 i!q) (< i!q (sq.len %s))) (= (select (sq.arr %s) (+ i!q (sq.len %s))) (select (sq.arr %s) i!q))) :pattern ((select (sq.arr %s) i!q))))", b.T, r.T, a.T, b.T, b.T))
	fv.assume(st, fmt.Sprintf("(forall ((i!q Int)) (! (=> (and (<= 0 i!q) (< i!q (sq.len %s))) (= (select (sq.arr %s) i!q) (select (sq.arr %s) i!q))) :pattern ((select (sq.arr %s) i!q))))", a.T, r.T, a.T, a.T))
	fv.assumeHint(st, mem, fmt.Sprintf("(forall ((x!q %s)) (! (= (%s %s x!q) (or (%s %s x!q) (%s %s x!q))) :pattern ((%s %s x!q)) :pattern ((%s %s x!q)) :pattern ((%s %s x!q))))", es, mem, r.T, mem, a.T, mem, b.T, mem, r.T, mem, a.T, mem, b.T))
	return r
}

// ---------- sync / atomic ----------

// locOf computes a heap location (key, ref) for a receiver expression of a
// library type (mutex, atomic) embedded in a heap object or a local variable.
type loc struct {
	obj  types.Object // local variable
	path []*types.Var // value-field path inside the local variable (struct value)
	objT types.Type   // type of the local variable when path is set
	key  string       // heap key (array indexed by ref) if obj == nil
	ref  string
	sort string
	goT  types.Type
}

func (fv *FV) locOf(st *State, e ast.Expr) (loc, bool) {
	e = unparen(e)
	info := fv.info()
	switch x := e.(type) {
	case *ast.Ident:
		o := info.Uses[x]
		if v, ok := o.(*types.Var); ok {
			if v.Pkg() != nil && v.Parent() == v.Pkg().Scope() {
				return loc{key: globalKey(v), sort: fv.sess.sortOf(v.Type()), goT: v.Type()}, true
			}
			return loc{obj: v, sort: fv.sess.sortOf(v.Type()), goT: v.Type()}, true
		}
	case *ast.UnaryExpr:
		if x.Op == token.AND {
			return fv.locOf(st, x.X)
		}
	case *ast.SelectorExpr:
		sel := info.Selections[x]
		if sel == nil || sel.Kind() != types.FieldVal {
			if v, ok := info.Uses[x.Sel].(*types.Var); ok {
				return loc{key: globalKey(v), sort: fv.sess.sortOf(v.Type()), goT: v.Type()}, true
			}
			return loc{}, false
		}
		// field of a local struct value: mut.cacheCalled
		if id, ok := unparen(x.X).(*ast.Ident); ok && !isPointer(sel.Recv()) {
			if v, ok := info.Uses[id].(*types.Var); ok && !(v.Pkg() != nil && v.Parent() == v.Pkg().Scope()) {
				ct := sel.Recv()
				var path []*types.Var
				okPath := true
				for _, idx := range sel.Index() {
					stt := structOf(ct)
					if stt == nil || isPointer(ct) {
						okPath = false
						break
					}
					f := stt.Field(idx)
					path = append(path, f)
					ct = f.Type()
				}
				if okPath && len(path) > 0 {
					return loc{obj: v, path: path, objT: v.Type(), sort: fv.sess.sortOf(ct), goT: ct}, true
				}
			}
		}
		cur := fv.eval(st, x.X)
		ct := sel.Recv()
		idxs := sel.Index()
		for i, idx := range idxs {
			stt := structOf(ct)
			f := stt.Field(idx)
			if i == len(idxs)-1 {
				if !isPointer(ct) {
					return loc{}, false
				}
				owner := namedOf(ct)
				fv.safe(st, "nil", x, fmt.Sprintf("(not (= %s 0))", cur.T))
				return loc{key: fieldKey(owner, f), ref: cur.T, sort: fv.sess.sortOf(f.Type()), goT: f.Type()}, true
			}
			cur = fv.stepField(st, cur, ct, f, x)
			ct = f.Type()
		}
	}
	return loc{}, false
}

func (fv *FV) locGet(st *State, l loc) Val {
	if l.obj != nil && len(l.path) > 0 {
		cur, ok := st.vars[l.obj]
		if !ok {
			cur = fv.zero(l.objT)
		}
		ct := l.objT
		for _, f := range l.path {
			cur = fv.stepField(st, cur, ct, f, nil)
			ct = f.Type()
		}
		return cur
	}
	if l.obj != nil {
		if v, ok := st.vars[l.obj]; ok {
			return v
		}
		return fv.zero(l.goT)
	}
	if l.ref == "" {
		h := fv.heapGet(st, l.key, l.sort, l.goT)
		return Val{T: h.T, S: l.sort, Go: l.goT}
	}
	h := fv.heapGet(st, l.key, l.sort, l.goT)
	return Val{T: fmt.Sprintf("(select %s %s)", h.T, l.ref), S: l.sort, Go: l.goT}
}

func (fv *FV) locSet(st *State, l loc, v Val) {
	if l.obj != nil && len(l.path) > 0 {
		cur, ok := st.vars[l.obj]
		if !ok {
			cur = fv.zero(l.objT)
		}
		nv := fv.updatePath(cur, l.objT, l.path, Val{T: v.T, S: l.sort, Go: l.goT})
		nv.Go = l.objT
		st.vars[l.obj] = fv.name(l.obj.Name(), nv)
		return
	}
	if l.obj != nil {
		st.vars[l.obj] = Val{T: v.T, S: l.sort, Go: l.goT}
		return
	}
	h := fv.heapGet(st, l.key, l.sort, l.goT)
	if l.ref == "" {
		st.heap[l.key] = Val{T: v.T, S: l.sort, Go: l.goT}
	} else {
		st.heap[l.key] = fv.name("H", Val{T: fmt.Sprintf("(store %s %s %s)", h.T, l.ref, v.T), S: h.S, Go: h.Go})
	}
	fv.writtenHeap[l.key] = true
}

func (fv *FV) libMethod(st *State, call *ast.CallExpr, fn *types.Func, recvExpr ast.Expr) ([]Val, bool) {
	if fn.Pkg() == nil {
		return nil, false
	}
	pkg := fn.Pkg().Path()
	if pkg != "sync" && pkg != "sync/atomic" {
		return nil, false
	}
	rn := namedOf(fn.Type().(*types.Signature).Recv().Type())
	if rn == nil {
		return nil, false
	}
	tname := rn.Obj().Name()
	l, ok := fv.locOf(st, recvExpr)
	if !ok {
		// pointer-typed receiver expression (e.g. *sync.RWMutex variable)
		rt := fv.info().TypeOf(recvExpr)
		if isPointer(rt) {
			p := fv.eval(st, recvExpr)
			pe := types.Unalias(rt).Underlying().(*types.Pointer).Elem()
			l = loc{key: "P:" + tname, ref: p.T, sort: fv.sess.sortOf(pe), goT: pe}
			ok = true
		}
	}
	if !ok {
		fv.unsupported("receiver location of %s", fv.exprText(recvExpr))
	}
	info := fv.info()
	ret := info.TypeOf(call)
	if pkg == "sync/atomic" {
		cur := fv.locGet(st, l)
		var et types.Type
		switch tname {
		case "Bool":
			et = types.Typ[types.Bool]
		case "Int32":
			et = types.Typ[types.Int32]
		case "Int64":
			et = types.Typ[types.Int64]
		case "Uint32":
			et = types.Typ[types.Uint32]
		case "Uint64":
			et = types.Typ[types.Uint64]
		case "Pointer":
			et = nil
		case "Value":
			et = nil
		}
		switch fn.Name() {
		case "Load":
			v := Val{T: cur.T, S: cur.S, Go: ret}
			if et != nil {
				if inv := fv.typeInv(v.T, et, 0); inv != "true" && fv.pure == 0 {
					fv.sess.fact(inv)
				}
			}
			return []Val{v}, true
		case "Store":
			v := fv.eval(st, call.Args[0])
			v = fv.convertTo(st, v, atomicElem(cur.S, ret, info.TypeOf(call.Args[0])))
			if cur.S == "Any" && v.S != "Any" {
				// atomic.Value holds an interface value
				v = fv.convertTo(st, v, types.NewInterfaceType(nil, nil))
			}
			fv.locSet(st, l, v)
			if fv.w.ownership[l.key] && fv.pure == 0 {
				// ownership token: storing false releases the queue
				ow := fv.ghostGet(st, "owner")
				st.heap[ghostKey("owner")] = fv.name("ghost_owner", Val{T: ite(v.T, ow.T, "0"), S: "Int", Go: types.Typ[types.Int]})
				fv.writtenHeap[ghostKey("owner")] = true
			}
			return nil, true
		case "Swap":
			v := fv.eval(st, call.Args[0])
			fv.locSet(st, l, v)
			return []Val{{T: cur.T, S: cur.S, Go: ret}}, true
		case "CompareAndSwap":
			o := fv.eval(st, call.Args[0])
			n := fv.eval(st, call.Args[1])
			eq := fmt.Sprintf("(= %s %s)", cur.T, o.T)
			fv.locSet(st, l, Val{T: ite(eq, n.T, cur.T), S: cur.S})
			if fv.w.ownership[l.key] && fv.pure == 0 && cur.S == "Bool" {
				// ownership token: a successful CAS false->true makes this goroutine the owner
				ow := fv.ghostGet(st, "owner")
				won := fmt.Sprintf("(and %s (not %s) %s)", eq, o.T, n.T)
				st.heap[ghostKey("owner")] = fv.name("ghost_owner", Val{T: ite(won, "1", ow.T), S: "Int", Go: types.Typ[types.Int]})
				fv.writtenHeap[ghostKey("owner")] = true
			}
			return []Val{{T: eq, S: "Bool", Go: types.Typ[types.Bool]}}, true
		case "Add":
			d := fv.eval(st, call.Args[0])
			nv := fv.arith(st, token.ADD, Val{T: cur.T, S: "Int"}, d, et, call)
			fv.locSet(st, l, nv)
			return []Val{{T: nv.T, S: "Int", Go: ret}}, true
		}
		fv.unsupported("atomic method %s", fn.Name())
	}
	// sync
	switch tname {
	case "Mutex", "RWMutex":
		cur := fv.locGet(st, l)
		name := fv.exprText(recvExpr)
		switch fn.Name() {
		case "Lock":
			fv.oblige(st, "perm.lock", "("+name+")", fmt.Sprintf("(= %s 0)", cur.T), "Lock() while this thread already holds the mutex (self-deadlock)", call.Pos())
			fv.locSet(st, l, Val{T: "2", S: "Int"})
		case "RLock":
			fv.oblige(st, "perm.rlock", "("+name+")", fmt.Sprintf("(= %s 0)", cur.T), "RLock() while this thread already holds the mutex (deadlock with a waiting writer)", call.Pos())
			fv.locSet(st, l, Val{T: "1", S: "Int"})
		case "Unlock":
			fv.oblige(st, "perm.unlock", "("+name+")", fmt.Sprintf("(= %s 2)", cur.T), "Unlock() without holding the write lock", call.Pos())
			fv.locSet(st, l, Val{T: "0", S: "Int"})
		case "RUnlock":
			fv.oblige(st, "perm.runlock", "("+name+")", fmt.Sprintf("(= %s 1)", cur.T), "RUnlock() without holding the read lock", call.Pos())
			fv.locSet(st, l, Val{T: "0", S: "Int"})
		case "TryLock":
			ok := fv.freshSort("trylock", "Bool")
			fv.locSet(st, l, Val{T: ite(and(ok.T, fmt.Sprintf("(= %s 0)", cur.T)), "2", cur.T), S: "Int"})
			ok.Go = types.Typ[types.Bool]
			return []Val{{T: and(ok.T, fmt.Sprintf("(= %s 0)", cur.T)), S: "Bool", Go: types.Typ[types.Bool]}}, true
		case "TryRLock":
			ok := fv.freshSort("trylock", "Bool")
			fv.locSet(st, l, Val{T: ite(and(ok.T, fmt.Sprintf("(= %s 0)", cur.T)), "1", cur.T), S: "Int"})
			return []Val{{T: and(ok.T, fmt.Sprintf("(= %s 0)", cur.T)), S: "Bool", Go: types.Typ[types.Bool]}}, true
		default:
			fv.unsupported("mutex method %s", fn.Name())
		}
		return nil, true
	case "Once":
		fv.unsupported("sync.Once")
	case "WaitGroup":
		fv.note("sync.WaitGroup.%s abstracted", fn.Name())
		return nil, true
	}
	fv.unsupported("sync method %s.%s", tname, fn.Name())
	return nil, true
}

func atomicElem(sort string, ret, argT types.Type) types.Type {
	if argT != nil {
		return argT
	}
	return ret
}

// ---------- modelled stdlib ----------

func (fv *FV) stdlibCall(st *State, call *ast.CallExpr, fn *types.Func, full string, recv *Val, args []Val, sig *types.Signature) ([]Val, bool) {
	info := fv.info()
	t := info.TypeOf(call)
	one := func(v Val) ([]Val, bool) { return []Val{v}, true }
	switch full {
	case "math.Max", "math.Min":
		// floats are reals here: the larger / smaller argument (NaN and signed zeros not modelled)
		op := ">="
		if full == "math.Min" {
			op = "<="
		}
		a := fv.convertTo(st, args[0], types.Typ[types.Float64])
		b := fv.convertTo(st, args[1], types.Typ[types.Float64])
		fv.note("%s: floating point treated as real arithmetic", full)
		return one(Val{T: fmt.Sprintf("(ite (%s %s %s) %s %s)", op, a.T, b.T, a.T, b.T), S: "Real", Go: t})
	case "slices.Clone":
		s := args[0]
		r := fv.freshSort("clone", s.S)
		r.Go = t
		fv.assume(st, fmt.Sprintf("(and (= (sq.arr %s) (sq.arr %s)) (= (sq.len %s) (sq.len %s)) (ite (= (sq.ref %s) 0) (= (sq.ref %s) 0) (> (sq.ref %s) %s)))", r.T, s.T, r.T, s.T, s.T, r.T, r.T, fv.allocCur(st)))
		fv.allocAbove(st, fmt.Sprintf("(sq.ref %s)", r.T))
		return one(r)
	case "slices.Contains":
		es := seqElemSort(args[0].S)
		return one(Val{T: fmt.Sprintf("(%s %s %s)", fv.sess.fnMem(es), args[0].T, args[1].T), S: "Bool", Go: t})
	case "slices.Index":
		es := seqElemSort(args[0].S)
		return one(Val{T: fmt.Sprintf("(%s %s %s)", fv.sess.fnIndex(es), args[0].T, args[1].T), S: "Int", Go: t})
	case "slices.Equal":
		es := seqElemSort(args[0].S)
		return one(Val{T: fmt.Sprintf("(%s %s %s)", fv.sess.fnSeqeq(es), args[0].T, args[1].T), S: "Bool", Go: t})
	case "slices.Concat":
		// variadic packed as seq of seq: only literal argument lists supported
		if len(call.Args) >= 1 && !call.Ellipsis.IsValid() {
			cur := fv.convertTo(st, fv.eval(st, call.Args[0]), t)
			// note: args were already evaluated once (pure); re-evaluation is harmless for pure args
			first := true
			var acc Val
			for _, a := range call.Args {
				v := fv.convertTo(st, fv.eval(st, a), t)
				if first {
					// Concat always returns a new slice
					acc = fv.concatSeq(st, fv.zero(t), v, t)
					first = false
				} else {
					acc = fv.concatSeq(st, acc, v, t)
				}
			}
			_ = cur
			return one(acc)
		}
	case "slices.Reverse":
		// in place: assign back
		s := args[0]
		r := fv.freshSort("rev", s.S)
		r.Go = s.Go
		fv.assume(st, fmt.Sprintf("(and (= (sq.len %s) (sq.len %s)) (= (sq.ref %s) (sq.ref %s)) (forall ((i!q Int)) (! (=> (and (<= 0 i!q) (< i!q (sq.len %s))) (= (select (sq.arr %s) i!q) (select (sq.arr %s) (- (- (sq.len %s) 1) i!q)))) :pattern ((select (sq.arr %s) i!q)))))",
			r.T, s.T, r.T, s.T, s.T, r.T, s.T, s.T, r.T))
		{
			es := seqElemSort(s.S)
			mem := fv.sess.fnMem(es)
			fv.assumeHint(st, mem, fmt.Sprintf("(forall ((x!q %s)) (! (= (%s %s x!q) (%s %s x!q)) :pattern ((%s %s x!q)) :pattern ((%s %s x!q))))", es, mem, r.T, mem, s.T, mem, r.T, mem, s.T))
		}
		fv.assign(st, call.Args[0], r)
		return nil, true
	case "slices.Delete":
		s, i, j := args[0], args[1], args[2]
		fv.safe(st, "slice", call, fmt.Sprintf("(and (<= 0 %s) (<= %s %s) (<= %s (sq.len %s)))", i.T, i.T, j.T, j.T, s.T))
		r := fv.freshSort("del", s.S)
		r.Go = t
		fv.assume(st, fmt.Sprintf("(and (= (sq.len %s) (- (sq.len %s) (- %s %s))) (= (sq.ref %s) (sq.ref %s)) (forall ((i!q Int)) (! (= (select (sq.arr %s) i!q) (ite (< i!q %s) (select (sq.arr %s) i!q) (select (sq.arr %s) (+ i!q (- %s %s))))) :pattern ((select (sq.arr %s) i!q)))))",
			r.T, s.T, j.T, i.T, r.T, s.T, r.T, i.T, s.T, s.T, j.T, i.T, r.T))
		fv.assume(st, fmt.Sprintf("(forall ((i!q Int)) (! (=> (and (<= %s i!q) (< i!q (sq.len %s))) (= (select (sq.arr %s) (- i!q (- %s %s))) (select (sq.arr %s) i!q))) :pattern ((select (sq.arr %s) i!q))))",
			j.T, s.T, r.T, j.T, i.T, s.T, s.T))
		fv.note("slices.Delete: the caller's original slice header is assumed not to be observed afterwards (tail zeroing not modelled)")
		return one(r)
	case "maps.Keys":
		// only as the argument of slices.Collect (handled there): carry the map
		return one(Val{T: args[0].T, S: args[0].S, Go: args[0].Go})
	case "slices.Collect":
		// slices.Collect(maps.Keys(m)): the keys of m, each once, in any order
		m := args[0]
		if !strings.HasPrefix(m.S, "(GMap ") {
			return nil, false
		}
		ks, _ := mapSorts(m.S)
		r := fv.freshVal("keys", t)
		mem := fv.sess.fnMem(ks)
		fv.assume(st, fmt.Sprintf("(and (%s %s) (> (sq.ref %s) %s) (forall ((x!q %s)) (! (= (%s %s x!q) (select (mp.dom %s) x!q)) :pattern ((%s %s x!q)) :pattern ((select (mp.dom %s) x!q)))))",
			fv.sess.fnNodup(ks), r.T, r.T, fv.allocCur(st), ks, mem, r.T, m.T, mem, r.T, m.T))
		fv.allocAbove(st, fmt.Sprintf("(sq.ref %s)", r.T))
		return one(r)
	case "maps.Clone":
		m := args[0]
		r := fv.freshSort("mclone", m.S)
		r.Go = t
		fv.assume(st, fmt.Sprintf("(and (= (mp.val %s) (mp.val %s)) (= (mp.dom %s) (mp.dom %s)) (ite (= (mp.ref %s) 0) (= (mp.ref %s) 0) (> (mp.ref %s) %s)))", r.T, m.T, r.T, m.T, m.T, r.T, r.T, fv.allocCur(st)))
		fv.allocAbove(st, fmt.Sprintf("(mp.ref %s)", r.T))
		return one(r)
	case "maps.Equal":
		a, b := args[0], args[1]
		ks, _ := mapSorts(a.S)
		if ks == "" || a.S != b.S {
			return nil, false
		}
		return one(Val{T: fmt.Sprintf("(and (= (mp.dom %s) (mp.dom %s)) (forall ((k!me %s)) (=> (select (mp.dom %s) k!me) (= (select (mp.val %s) k!me) (select (mp.val %s) k!me)))))", a.T, b.T, ks, a.T, a.T, b.T), S: "Bool", Go: t})
	case "strings.HasPrefix":
		return one(Val{T: fmt.Sprintf("(s.prefix %s %s)", args[0].T, args[1].T), S: "Bool", Go: t})
	case "strings.HasSuffix":
		return one(Val{T: fmt.Sprintf("(s.suffix %s %s)", args[0].T, args[1].T), S: "Bool", Go: t})
	case "context.Context.Err", "context.Context.Done", "context.Context.Value":
	case "sort.Search":
		return fv.sortSearch(st, call, args)
	case "slices.BinarySearchFunc":
		return fv.binarySearchFunc(st, call, args)
	case "sort.SliceStable", "sort.Slice", "slices.Sort", "sort.Strings":
		// in-place sort: the result is a permutation of the input. Only the
		// permutation facts are modelled here (same length, same members, no
		// new duplicates); ordering is not.
		sv := args[0]
		if sv.S == "Any" {
			sv = fv.eval(st, call.Args[0])
		}
		if !strings.HasPrefix(sv.S, "(GSeq ") {
			return nil, false
		}
		es := seqElemSort(sv.S)
		r := fv.freshSort("sorted", sv.S)
		r.Go = sv.Go
		mem := fv.sess.fnMem(es)
		fv.assume(st, fmt.Sprintf("(and (= (sq.len %s) (sq.len %s)) (= (sq.ref %s) (sq.ref %s)) (=> (%s %s) (%s %s)) (forall ((x!q %s)) (! (= (%s %s x!q) (%s %s x!q)) :pattern ((%s %s x!q)) :pattern ((%s %s x!q)))))",
			r.T, sv.T, r.T, sv.T, fv.sess.fnNodup(es), sv.T, fv.sess.fnNodup(es), r.T, es, mem, r.T, mem, sv.T, mem, r.T, mem, sv.T))
		fv.note("%s: modelled as an arbitrary permutation of its argument (ordering not modelled)", full)
		fv.assign(st, call.Args[0], r)
		return nil, true
	}
	return nil, false
}

// sort.Search(n, f): assumed contract — for a monotone predicate (checked as
// a precondition) returns the least index in [0,n] at which f is true.
func (fv *FV) sortSearch(st *State, call *ast.CallExpr, args []Val) ([]Val, bool) {
	n := args[0]
	f := args[1]
	if f.Clos == nil || f.Clos.Lit == nil {
		return nil, false
	}
	pred := func(i string) string {
		fv.pure++
		defer func() { fv.pure-- }()
		r := fv.callClosure(st.clone(), f.Clos, []Val{{T: i, S: "Int", Go: types.Typ[types.Int]}}, call)
		return r[0].T
	}
	// the closure runs on every index in [0,n): its own safety (bounds, nil) is
	// checked once for an arbitrary such index
	{
		chk := st.clone()
		iv := fv.freshSort("si", "Int")
		chk.pc = fv.namePC(and(st.pc, fmt.Sprintf("(and (<= 0 %s) (< %s %s))", iv.T, iv.T, n.T)))
		fv.callClosure(chk, f.Clos, []Val{{T: iv.T, S: "Int", Go: types.Typ[types.Int]}}, call)
	}
	fv.oblige(st, "call(sort.Search).pre", "monotone",
		fmt.Sprintf("(forall ((a!q Int) (b!q Int)) (=> (and (<= 0 a!q) (<= a!q b!q) (< b!q %s) %s) %s))", n.T, pred("a!q"), pred("b!q")),
		"sort.Search needs a monotone predicate", call.Pos())
	r := fv.freshVal("search", types.Typ[types.Int])
	fv.assume(st, fmt.Sprintf("(and (<= 0 %s) (<= %s %s) (=> (< %s %s) %s) (forall ((j!q Int)) (=> (and (<= 0 j!q) (< j!q %s)) (not %s))))",
		r.T, r.T, n.T, r.T, n.T, pred(r.T), r.T, pred("j!q")))
	return []Val{r}, true
}

// ---------- closures and inlining ----------

func (fv *FV) callClosure(st *State, c *Closure, args []Val, at ast.Node) []Val {
	if c.Lit != nil {
		sig := c.Pkg.TypesInfo.TypeOf(c.Lit).(*types.Signature)
		return fv.runBody(st, c.Pkg, nil, c.Lit, sig, c.Lit.Type, nil, c.Lit.Body, nil, args, at)
	}
	if c.Decl != nil {
		fn := c.Pkg.TypesInfo.Defs[c.Decl.Name].(*types.Func)
		full := funcFullName(fn)
		all := args
		if c.Recv != nil {
			all = append([]Val{*c.Recv}, args...)
		}
		if ct := fv.w.contractFor(full); ct != nil {
			call, _ := at.(*ast.CallExpr)
			return fv.callByContract(st, ct, fn, fn.Type().(*types.Signature), all, call)
		}
		d := fv.w.declOf(fn)
		return fv.inlineCall(st, d, fn, c.Recv, args, at)
	}
	fv.unsupported("closure without body")
	return nil
}

func (fv *FV) inlineCall(st *State, d *declInfo, fn *types.Func, recv *Val, args []Val, at ast.Node) []Val {
	if fv.w.inlining[fn] {
		fv.unsupported("recursive inlining of %s", fn.Name())
	}
	fv.w.inlining[fn] = true
	defer delete(fv.w.inlining, fn)
	sig := fn.Type().(*types.Signature)
	fv.note("callee %s inlined (no contract)", funcFullName(fn))
	// generic callee: bind its type parameters to the instantiation at this call
	if call, ok := at.(*ast.CallExpr); ok && sig.TypeParams() != nil && sig.TypeParams().Len() > 0 {
		if id := calleeIdent(call); id != nil {
			if inst, ok := fv.info().Instances[id]; ok {
				var set []*types.TypeParam
				for i := 0; i < sig.TypeParams().Len() && i < inst.TypeArgs.Len(); i++ {
					tp := sig.TypeParams().At(i)
					if _, had := tpSubst[tp]; !had {
						tpSubst[tp] = inst.TypeArgs.At(i)
						set = append(set, tp)
					}
				}
				defer func() {
					for _, tp := range set {
						delete(tpSubst, tp)
					}
				}()
			}
		}
	}
	return fv.runBody(st, d.pkg, d.decl, nil, sig, d.decl.Type, d.decl.Recv, d.decl.Body, recv, args, at)
}

// runBody executes a function body in the caller's state (shared heap) and
// merges all return paths back into st.
func (fv *FV) runBody(st *State, pkg *packages.Package, decl *ast.FuncDecl, lit *ast.FuncLit, sig *types.Signature,
	ftype *ast.FuncType, recvList *ast.FieldList, body *ast.BlockStmt, recv *Val, args []Val, at ast.Node) []Val {
	if fv.inlineDepth >= maxInlineDepth+2 {
		fv.unsupported("inline depth exceeded")
	}
	saved := fv.fn
	savedOrd := fv.loopOrd
	savedDefers := st.defers
	st.defers = nil
	nf := &fnCtx{decl: decl, lit: lit, sig: sig, pkg: pkg, depth: saved.depth + 1}
	fv.fn = nf
	fv.inlineDepth++
	defer func() {
		fv.fn = saved
		fv.inlineDepth--
		fv.loopOrd = savedOrd
	}()
	info := pkg.TypesInfo
	// bind receiver
	if recvList != nil && len(recvList.List) > 0 && len(recvList.List[0].Names) > 0 && recv != nil {
		if obj := info.Defs[recvList.List[0].Names[0]]; obj != nil {
			st.vars[obj] = *recv
		}
	}
	i := 0
	for _, f := range ftype.Params.List {
		if len(f.Names) == 0 {
			i++
			continue
		}
		for _, n := range f.Names {
			if obj := info.Defs[n]; obj != nil && i < len(args) {
				v := args[i]
				if v.Clos == nil {
					v = fv.convertTo(st, v, obj.Type())
				}
				st.vars[obj] = v
			}
			i++
		}
	}
	if ftype.Results != nil {
		for _, f := range ftype.Results.List {
			for _, n := range f.Names {
				if obj := info.Defs[n]; obj != nil {
					st.vars[obj] = fv.zero(obj.Type())
					nf.results = append(nf.results, obj)
				}
			}
		}
	}
	work := st.clone()
	end := fv.execBlock(work, body.List)
	if end != nil {
		// fallthrough end of function
		fv.execReturn(end, &ast.ReturnStmt{})
	}
	m := fv.merge(nf.returns)
	if m == nil {
		// never returns (panics on all paths)
		st.pc = "false"
		var out []Val
		for i := 0; i < sig.Results().Len(); i++ {
			out = append(out, fv.zero(sig.Results().At(i).Type()))
		}
		st.defers = savedDefers
		return out
	}
	// merge result values
	var out []Val
	for i := 0; i < sig.Results().Len(); i++ {
		var live []*State
		for _, r := range nf.returns {
			if r.pc != "false" {
				live = append(live, r)
			}
		}
		t := live[len(live)-1].result[i].T
		for j := len(live) - 2; j >= 0; j-- {
			t = ite(live[j].pc, live[j].result[i].T, t)
		}
		v := live[0].result[i]
		v.T = t
		if v.Clos != nil && len(live) > 1 {
			v.Clos = nil
		}
		out = append(out, fv.name("ret", v))
	}
	st.pc = m.pc
	st.vars = m.vars
	st.heap = m.heap
	st.defers = savedDefers
	return out
}

// ---------- calls by contract ----------

func (fv *FV) callByContract(st *State, c *Contract, fn *types.Func, sig *types.Signature, all []Val, call *ast.CallExpr) []Val {
	if fv.pure > 0 {
		if c.Pure && sig.Results().Len() == 1 && c != fv.contract {
			cpkg := fv.w.pkgOf(c.Pkg)
			return []Val{fv.pureApp(c, all, &SpecEnv{fv: fv, names: map[string]Val{}, cur: st, old: st, pkg: cpkg, tsub: fv.tsub})}
		}
		fv.unsupported("call to %s inside a pure (spec-evaluated) context: callee is not declared pure", c.Key())
	}
	full := c.Key()
	short := shortName(full)
	// the ordinal names the call SITE (k-th distinct site calling this callee, in
	// first-encounter order), not the execution: a deferred closure run on every
	// return path, or a call moved within the body, keeps its obligation names
	siteKey := "callsite:" + short + "@"
	if call != nil {
		siteKey += fmt.Sprint(call.Pos())
	} else {
		fv.cnt["call:"+short+":anon"]++
		siteKey += fmt.Sprint("anon", fv.cnt["call:"+short+":anon"])
	}
	if fv.cnt[siteKey] == 0 {
		fv.cnt["call:"+short]++
		fv.cnt[siteKey] = fv.cnt["call:"+short]
	}
	k := fv.cnt[siteKey]
	names := map[string]Val{}
	for i, n := range c.Params {
		if i < len(all) {
			names[n] = all[i]
		}
	}
	cpkg := fv.w.pkgOf(c.Pkg)
	tsub := map[string]types.Type{}
	// generic instantiation: map type parameter names to the instantiated types
	if call != nil {
		if inst, ok := fv.info().Instances[calleeIdent(call)]; ok {
			osig := fn.Type().(*types.Signature)
			for i := 0; i < osig.TypeParams().Len() && i < inst.TypeArgs.Len(); i++ {
				tsub[osig.TypeParams().At(i).Obj().Name()] = inst.TypeArgs.At(i)
			}
		}
	}
	pre := st.clone()
	env := &SpecEnv{fv: fv, names: names, cur: st, old: pre, pkg: cpkg, tsub: tsub}
	// ghost results of the callee (defined by `loop N let` or as locals at
	// exit inside it) are existential for the caller: unconstrained values
	for _, g := range c.Ghost {
		gt := env.resolveType(g.Type)
		names[g.Name] = fv.freshVal("ghost_"+g.Name, gt)
	}
	var pos token.Pos
	if call != nil {
		pos = call.Pos()
	}
	for _, r := range c.Requires {
		g := fv.evalSpecBool(env, r.Expr)
		fv.oblige(st, fmt.Sprintf("call%d(%s).pre", k, short), r.Label, g, r.Text, pos)
	}
	// direct recursion needs a measure (termination is otherwise not looked at)
	if c == fv.contract {
		var dec *Clause
		for i := range c.Loops {
			if c.Loops[i].Kind == "decreases" && c.Loops[i].Loop == 0 {
				dec = &c.Loops[i]
			}
		}
		if dec == nil {
			fv.oblige(st, "term.recursion", "", "false", "a function that calls itself needs a decreases clause: without a measure the call never returns", pos)
		} else {
			mc := fv.evalSpec(env, dec.Expr)
			me := fv.evalSpec(&SpecEnv{fv: fv, names: fv.specNames, cur: fv.oldState, old: fv.oldState, pkg: fv.fn.pkg, tsub: fv.tsub}, dec.Expr)
			fv.oblige(st, "term.recursion", "", fmt.Sprintf("(and (<= 0 %s) (< %s %s))", mc.T, mc.T, me.T), dec.Text, pos)
		}
	}
	// frame
	fv.havocFrame(st, c, env)
	// channels the callee closes
	for _, cp := range c.Closes {
		for i, pn := range c.Params {
			if pn == cp && i < len(all) {
				fv.setChanClosed(st, all[i].T, "true")
			}
		}
	}
	// ghost assignments of the callee: evaluated on the pre-call state
	for _, gs := range c.GhostSets {
		nv := fv.evalSpec(&SpecEnv{fv: fv, names: names, cur: pre, old: pre, pkg: cpkg, tsub: tsub}, gs.Expr)
		fv.heapGet(st, ghostKey(gs.Name), "Int", types.Typ[types.Int])
		st.heap[ghostKey(gs.Name)] = Val{T: nv.T, S: "Int", Go: types.Typ[types.Int]}
		fv.writtenHeap[ghostKey(gs.Name)] = true
	}
	// the callee may have allocated
	allocBefore := fv.allocCur(st)
	fv.advanceAlloc(st)
	// results
	var out []Val
	for i := 0; i < sig.Results().Len(); i++ {
		v := fv.freshVal("r_"+lastSeg(short), sig.Results().At(i).Type())
		fv.liveRef(st, v)
		out = append(out, v)
		if i < len(c.Results) {
			names[c.Results[i]] = v
		}
	}
	// results declared fresh(r): the callee allocated the object, its fields
	// are new heap cells
	for i, v := range out {
		if i >= len(c.Results) || v.Go == nil || !isPointer(v.Go) {
			continue
		}
		declFresh := false
		for _, e := range c.Ensures {
			if strings.Contains(strings.ReplaceAll(e.Text, " ", ""), "fresh("+c.Results[i]+")") {
				declFresh = true
			}
		}
		if !declFresh {
			continue
		}
		n := namedOf(v.Go)
		stt := structOf(v.Go)
		if n == nil || stt == nil || isSyncType(n) {
			continue
		}
		for j := 0; j < stt.NumFields(); j++ {
			f := stt.Field(j)
			key := fieldKey(n, f)
			h := fv.heapGet(st, key, fv.sess.sortOf(f.Type()), f.Type())
			nv := fv.freshVal("nf_"+f.Name(), f.Type())
			st.heap[key] = fv.name("H", Val{T: fmt.Sprintf("(store %s %s %s)", h.T, v.T, nv.T), S: h.S, Go: h.Go})
		}
		fv.assume(st, fmt.Sprintf("(> %s %s)", v.T, allocBefore))
	}
	// side effects of closures passed as arguments: variables they capture and assign
	if call != nil {
		for _, a := range call.Args {
			lit, ok := unparen(a).(*ast.FuncLit)
			if !ok {
				continue
			}
			ms := fv.modifies(lit.Body)
			for o := range ms.vars {
				if o.Pos() >= lit.Pos() && o.Pos() <= lit.End() {
					continue
				}
				if old, has := st.vars[o]; has && old.Clos == nil {
					st.vars[o] = fv.freshVal(o.Name(), o.Type())
				}
			}
			for _, k := range sortedKeys(ms.heap) {
				fv.havocHeapKey(st, k)
			}
		}
	}
	// parameters modified in place: post(p) is a fresh value, written back to the argument
	type wb struct {
		arg ast.Expr
		v   Val
	}
	var writeBacks []wb
	for _, mp := range c.Mutates {
		for i, pn := range c.Params {
			if pn != mp || i >= len(all) {
				continue
			}
			nv := fv.freshSort("post_"+mp, all[i].S)
			nv.Go = all[i].Go
			if nv.Go != nil {
				if inv := fv.typeInv(nv.T, nv.Go, 0); inv != "true" {
					fv.sess.fact(inv)
				}
			}
			names["post:"+mp] = nv
			if call != nil {
				k := i
				if sig.Recv() != nil {
					k--
				}
				if k >= 0 && k < len(call.Args) {
					writeBacks = append(writeBacks, wb{call.Args[k], nv})
				}
			}
		}
	}
	env2 := &SpecEnv{fv: fv, names: names, cur: st, old: pre, pkg: cpkg, tsub: tsub}
	if c.Pure && len(out) == 1 && fv.contract != c {
		pv := fv.pureApp(c, all, env2)
		fv.assume(st, fmt.Sprintf("(= %s %s)", out[0].T, pv.T))
	}
	for _, e := range c.Ensures {
		func() {
			pure0 := fv.pure
			defer func() {
				if r := recover(); r != nil {
					fv.pure = pure0
					if u, ok := r.(unsupported); ok && strings.Contains(u.msg, "impure closure") {
						fv.note("call %s: postcondition %q not used (%s)", short, e.Label, u.msg)
						return
					}
					panic(r)
				}
			}()
			fv.assume(st, fv.evalSpecBool(env2, e.Expr))
		}()
	}
	for _, w := range writeBacks {
		fv.assign(st, w.arg, w.v)
	}
	if c.Trusted {
		fv.assumed["trusted contract: "+full] = true
	}
	return out
}

func calleeIdent(call *ast.CallExpr) *ast.Ident {
	f := unparen(call.Fun)
	for {
		switch x := f.(type) {
		case *ast.IndexExpr:
			f = x.X
			continue
		case *ast.IndexListExpr:
			f = x.X
			continue
		}
		break
	}
	switch x := f.(type) {
	case *ast.Ident:
		return x
	case *ast.SelectorExpr:
		return x.Sel
	}
	return nil
}

func shortName(full string) string {
	// github.com/x/y/pkg/machine.Machine.Foo -> machine.Machine.Foo
	if k := strings.LastIndex(full, "/"); k >= 0 {
		return full[k+1:]
	}
	return full
}

// havocFrame havocs the locations named by the callee's assigns clause.
func (fv *FV) havocFrame(st *State, c *Contract, env *SpecEnv) {
	if c.AllUnless != nil {
		// everything may change unless the condition held on entry
		penv := *env
		penv.cur = env.old
		cond := fv.evalSpecBool(&penv, c.AllUnless)
		a, b := fv.branch(st, cond)
		for _, x := range c.Assigns {
			fv.havocSpecLoc(a, env, x)
		}
		for _, k := range sortedKeys(b.heap) {
			fv.havocHeapKey(b, k)
		}
		m := fv.merge([]*State{a, b})
		st.vars, st.heap, st.pc = m.vars, m.heap, st.pc
		return
	}
	if !c.HasAssigns {
		// no assigns clause: callee assigns nothing of the heap (checked when the callee is verified)
		return
	}
	if c.AssignsAll {
		for _, k := range sortedKeys(st.heap) {
			fv.havocHeapKey(st, k)
		}
		fv.note("call %s: assigns * — whole heap havoc'd", c.Key())
		return
	}
	for _, a := range c.Assigns {
		fv.havocSpecLoc(st, env, a)
	}
}

// havocSpecLoc havocs one location: p.f (field f of object p), T.f (field f of
// every T), or a global.
func (fv *FV) havocSpecLoc(st *State, env *SpecEnv, a SExpr) {
	sel, ok := a.(SSel)
	if !ok {
		if id, ok := a.(SIdent); ok {
			// ghost/abstract location name (e.g. log): nothing modelled
			_ = id
			return
		}
		fv.unsupported("assigns location form")
	}
	if id, ok := sel.X.(SIdent); ok && id.Name == "ghost" {
		fv.heapGet(st, ghostKey(sel.Sel), "Int", types.Typ[types.Int])
		st.heap[ghostKey(sel.Sel)] = Val{T: fv.sess.fresh("ghost_"+sel.Sel, "Int"), S: "Int", Go: types.Typ[types.Int]}
		return
	}
	if id, ok := sel.X.(SIdent); ok && id.Name == "chans" && sel.Sel == "closed" {
		before := fv.heapGet(st, "chan.closed", "Bool", nil)
		fv.havocHeapKey(st, "chan.closed")
		after := st.heap["chan.closed"]
		fv.assume(st, fmt.Sprintf("(forall ((r!c Int)) (! (=> (select %s r!c) (select %s r!c)) :pattern ((select %s r!c))))", before.T, after.T, after.T))
		return
	}
	// Type.f form?
	if id, ok := sel.X.(SIdent); ok {
		if _, bound := env.names[id.Name]; !bound {
			if tn := env.lookupType(id.Name); tn != nil {
				if n := namedOf(tn); n != nil {
					if stt, ok := n.Underlying().(*types.Struct); ok {
						for i := 0; i < stt.NumFields(); i++ {
							if stt.Field(i).Name() == sel.Sel {
								key := fieldKey(n, stt.Field(i))
								fv.heapGet(st, key, fv.sess.sortOf(stt.Field(i).Type()), stt.Field(i).Type())
								fv.havocHeapKey(st, key)
								return
							}
						}
					}
				}
			}
		}
	}
	base := fv.evalSpec(env, sel.X)
	if base.Go == nil || !isPointer(base.Go) {
		fv.unsupported("assigns: base of %s is not a pointer", sel.Sel)
	}
	n := namedOf(base.Go)
	stt := structOf(base.Go)
	for i := 0; i < stt.NumFields(); i++ {
		f := stt.Field(i)
		if f.Name() == sel.Sel || sel.Sel == "_all" {
			key := fieldKey(n, f)
			h := fv.heapGet(st, key, fv.sess.sortOf(f.Type()), f.Type())
			nv := fv.freshVal("hv_"+f.Name(), f.Type())
			st.heap[key] = fv.name("H", Val{T: fmt.Sprintf("(store %s %s %s)", h.T, base.T, nv.T), S: h.S, Go: h.Go})
			if sel.Sel != "_all" {
				return
			}
		}
	}
	if sel.Sel != "_all" {
		fv.unsupported("assigns: no field %s", sel.Sel)
	}
}

// callMods: which heap keys may a call modify (for loop havoc).
func (fv *FV) callMods(call *ast.CallExpr, ms *modSet, depth int) {
	info := fv.info()
	if tv, ok := info.Types[call.Fun]; ok && tv.IsType() {
		return
	}
	if id, ok := unparen(call.Fun).(*ast.Ident); ok {
		if b, ok := info.Uses[id].(*types.Builtin); ok {
			switch b.Name() {
			case "delete", "copy":
				if o := fv.rootObj(call.Args[0]); o != nil {
					ms.vars[o] = true
				}
				fv.heapKeysOfLhs(call.Args[0], ms)
			case "close":
				ms.heap["chan.closed"] = true
			}
			return
		}
	}
	fn, recvExpr, isIface := fv.calleeOf(call)
	if fn == nil {
		// closure variable: scan its body if known
		if id, ok := unparen(call.Fun).(*ast.Ident); ok {
			if o := info.Uses[id]; o != nil {
				if lit := fv.w.closureLits[o]; lit != nil && depth < 3 {
					fv.collectMods(lit.Body, ms, depth+1)
				}
			}
		}
		return
	}
	if fn.Pkg() != nil && (fn.Pkg().Path() == "sync" || fn.Pkg().Path() == "sync/atomic") && recvExpr != nil {
		switch fn.Name() {
		case "Load":
			return
		}
		if o := fv.rootObj(recvExpr); o != nil {
			ms.vars[o] = true
		}
		fv.heapKeysOfLhs(recvExpr, ms)
		if isPointer(info.TypeOf(recvExpr)) {
			if n := namedOf(info.TypeOf(recvExpr)); n != nil {
				ms.heap["P:"+n.Obj().Name()] = true
			}
		}
		return
	}
	full := funcFullName(fn)
	if full == "slices.Reverse" {
		if o := fv.rootObj(call.Args[0]); o != nil {
			ms.vars[o] = true
		}
		fv.heapKeysOfLhs(call.Args[0], ms)
		return
	}
	if c := fv.w.contractFor(full); c != nil {
		if c.AssignsAll || c.AllUnless != nil {
			ms.heapAll = true
			return
		}
		for _, a := range c.Assigns {
			if sel, ok := a.(SSel); ok {
				if id, isId := sel.X.(SIdent); isId && id.Name == "ghost" {
					ms.heap[ghostKey(sel.Sel)] = true
					ms.addBase(ghostKey(sel.Sel), nil)
					continue
				}
				if id, isId := sel.X.(SIdent); isId && id.Name == "chans" && sel.Sel == "closed" {
					ms.heap["chan.closed"] = true
					ms.addBase("chan.closed", nil)
					continue
				}
				// `recv.field` of the callee's receiver, called on a plain identifier: only
				// that object's cell changes
				var baseID *ast.Ident
				if id, isId := sel.X.(SIdent); isId && c.Recv != "" && len(c.Params) > 0 && id.Name == c.Params[0] && recvExpr != nil {
					baseID, _ = unparen(recvExpr).(*ast.Ident)
				}
				for _, k := range fv.w.keysForFieldName(sel.Sel) {
					ms.heap[k] = true
					ms.addBase(k, baseID)
				}
			}
		}
		// ghost variables the callee sets, channels it closes, slices it mutates in place
		for _, gs := range c.GhostSets {
			ms.heap[ghostKey(gs.Name)] = true
			ms.addBase(ghostKey(gs.Name), nil)
		}
		if len(c.Closes) > 0 {
			ms.heap["chan.closed"] = true
			ms.addBase("chan.closed", nil)
		}
		for _, mp := range c.Mutates {
			for i, pn := range c.Params {
				if pn != mp {
					continue
				}
				ai := i
				if c.Recv != "" {
					ai = i - 1
				}
				var ae ast.Expr
				if ai == -1 {
					ae = recvExpr
				} else if ai >= 0 && ai < len(call.Args) {
					ae = call.Args[ai]
				}
				if ae != nil {
					if o := fv.rootObj(ae); o != nil {
						ms.vars[o] = true
					}
					fv.heapKeysOfLhs(ae, ms)
				}
			}
		}
		return
	}
	if isIface {
		return
	}
	if d := fv.w.declOf(fn); d != nil && d.decl.Body != nil && depth < 3 {
		saved := fv.fn
		fv.fn = &fnCtx{pkg: d.pkg, sig: fn.Type().(*types.Signature)}
		sub := &modSet{vars: map[types.Object]bool{}, heap: map[string]bool{}, bases: map[string][]*ast.Ident{}}
		fv.collectMods(d.decl.Body, sub, depth+1)
		fv.fn = saved
		// translate the callee's receiver identifier to the caller's receiver
		// expression when that is a plain identifier; everything else is imprecise
		var calleeRecv types.Object
		if d.decl.Recv != nil && len(d.decl.Recv.List) > 0 && len(d.decl.Recv.List[0].Names) > 0 {
			calleeRecv = d.pkg.TypesInfo.Defs[d.decl.Recv.List[0].Names[0]]
		}
		var callerRecv *ast.Ident
		if recvExpr != nil {
			callerRecv, _ = unparen(recvExpr).(*ast.Ident)
		}
		for k := range sub.heap {
			ms.heap[k] = true
			bs, ok := sub.bases[k]
			if !ok || len(bs) == 0 {
				ms.addBase(k, nil)
				continue
			}
			for _, b := range bs {
				if b != nil && calleeRecv != nil && callerRecv != nil && d.pkg.TypesInfo.Uses[b] == calleeRecv {
					ms.addBase(k, callerRecv)
				} else {
					ms.addBase(k, nil)
				}
			}
		}
		if sub.heapAll {
			ms.heapAll = true
		}
		return
	}
	// function literals passed as arguments may assign captured variables
	for _, a := range call.Args {
		if lit, ok := a.(*ast.FuncLit); ok && depth < 3 {
			fv.collectMods(lit.Body, ms, depth+1)
		}
	}
}

// slices.BinarySearchFunc(s, target, cmp): assumed contract. Precondition
// (checked): "cmp(s[i], target) >= 0" is monotone along s. Result (idx, found):
// idx is the least position with cmp >= 0 (or len), found iff cmp == 0 there.
func (fv *FV) binarySearchFunc(st *State, call *ast.CallExpr, args []Val) ([]Val, bool) {
	s, target, f := args[0], args[1], args[2]
	if f.Clos == nil || f.Clos.Lit == nil || !strings.HasPrefix(s.S, "(GSeq ") {
		return nil, false
	}
	et := elemType(underCore(fv.info().TypeOf(call.Args[0])))
	elem := func(i string) Val {
		return Val{T: fmt.Sprintf("(select (sq.arr %s) %s)", s.T, i), S: seqElemSort(s.S), Go: et}
	}
	cmp := func(i string) string {
		fv.pure++
		defer func() { fv.pure-- }()
		r := fv.callClosure(st.clone(), f.Clos, []Val{elem(i), target}, call)
		return r[0].T
	}
	n := fmt.Sprintf("(sq.len %s)", s.T)
	{
		chk := st.clone()
		iv := fv.freshSort("bi", "Int")
		chk.pc = fv.namePC(and(st.pc, fmt.Sprintf("(and (<= 0 %s) (< %s %s))", iv.T, iv.T, n)))
		fv.callClosure(chk, f.Clos, []Val{elem(iv.T), target}, call)
	}
	fv.oblige(st, "call(slices.BinarySearchFunc).pre", "sorted",
		fmt.Sprintf("(forall ((a!q Int) (b!q Int)) (=> (and (<= 0 a!q) (<= a!q b!q) (< b!q %s) (>= %s 0)) (>= %s 0)))", n, cmp("a!q"), cmp("b!q")),
		"slices.BinarySearchFunc needs a slice sorted with respect to cmp", call.Pos())
	r := fv.freshVal("bsearch", types.Typ[types.Int])
	found := fv.freshSort("found", "Bool")
	found.Go = types.Typ[types.Bool]
	fv.assume(st, fmt.Sprintf("(and (<= 0 %s) (<= %s %s) (=> (< %s %s) (>= %s 0)) (forall ((j!q Int)) (=> (and (<= 0 j!q) (< j!q %s)) (< %s 0))) (= %s (and (< %s %s) (= %s 0))))",
		r.T, r.T, n, r.T, n, cmp(r.T), r.T, cmp("j!q"), found.T, r.T, n, cmp(r.T)))
	return []Val{r, found}, true
}
