package main

// Concrete evaluation of spec expressions over ground values. Used to decide
// ground instances of contract predicates (C19: the shipped schema constants)
// exactly: every quantifier of those predicates is guarded by membership in a
// finite list or map, so ranging over the finite universe of the names that
// occur (plus one fresh name) and over the index range of the longest list
// decides the closed formula.

import (
	"fmt"
	"sort"
	"strconv"
)

// Concrete values: bool, int, string, []any (sequence; nil = nil slice),
// cMap (map), cStruct (struct value).
type cMap struct {
	m   map[string]any
	nil bool
	def any // value for absent keys (zero value)
}
type cStruct map[string]any

type cEnv struct {
	w      *World
	names  map[string]any
	strs   []string // universe for string quantifiers
	maxInt int      // index universe is [-1, maxInt]
	depth  int
}

type cErr struct{ msg string }

func cfail(f string, a ...any) { panic(cErr{fmt.Sprintf(f, a...)}) }

func (e *cEnv) with(name string, v any) *cEnv {
	n := *e
	n.names = make(map[string]any, len(e.names)+1)
	for k, x := range e.names {
		n.names[k] = x
	}
	n.names[name] = v
	return &n
}

func cEval(e *cEnv, x SExpr) any {
	switch x := x.(type) {
	case SBool:
		return x.V
	case SInt:
		n, err := strconv.Atoi(x.V)
		if err != nil {
			cfail("integer %s too large for concrete evaluation", x.V)
		}
		return n
	case SStr:
		return x.V
	case SNil:
		return nil
	case SIdent:
		if v, ok := e.names[x.Name]; ok {
			return v
		}
		cfail("unknown identifier %q in concrete evaluation", x.Name)
	case SUn:
		v := cEval(e, x.X)
		switch x.Op {
		case "!":
			return !v.(bool)
		case "-":
			return -v.(int)
		}
	case SBin:
		switch x.Op {
		case "&&":
			return cEval(e, x.X).(bool) && cEval(e, x.Y).(bool)
		case "||":
			return cEval(e, x.X).(bool) || cEval(e, x.Y).(bool)
		case "==>":
			return !cEval(e, x.X).(bool) || cEval(e, x.Y).(bool)
		case "<==>":
			return cEval(e, x.X).(bool) == cEval(e, x.Y).(bool)
		}
		a, b := cEval(e, x.X), cEval(e, x.Y)
		switch x.Op {
		case "==":
			return cEqual(a, b)
		case "!=":
			return !cEqual(a, b)
		case "<":
			return a.(int) < b.(int)
		case "<=":
			return a.(int) <= b.(int)
		case ">":
			return a.(int) > b.(int)
		case ">=":
			return a.(int) >= b.(int)
		case "+":
			return a.(int) + b.(int)
		case "-":
			return a.(int) - b.(int)
		case "*":
			return a.(int) * b.(int)
		}
	case SCond:
		if cEval(e, x.C).(bool) {
			return cEval(e, x.A)
		}
		return cEval(e, x.B)
	case SQuant:
		return cQuant(e, x, 0)
	case SOld:
		// plain-value functions: parameters are not modified, old(x) is x
		return cEval(e, x.X)
	case SSel:
		v := cEval(e, x.X)
		st, ok := v.(cStruct)
		if !ok {
			cfail("selector .%s on non-struct concrete value", x.Sel)
		}
		f, ok := st[x.Sel]
		if !ok {
			cfail("no field %s in concrete struct", x.Sel)
		}
		return f
	case SIndex:
		c := cEval(e, x.X)
		i := cEval(e, x.I)
		switch cc := c.(type) {
		case []any:
			k := i.(int)
			if k < 0 || k >= len(cc) {
				return "\x00out-of-range" // arbitrary value: guarded formulas never depend on it
			}
			return cc[k]
		case *cMap:
			if v, ok := cc.m[i.(string)]; ok {
				return v
			}
			return cc.def
		}
		cfail("index on unsupported concrete value")
	case SCall:
		id, ok := x.Fun.(SIdent)
		if !ok {
			cfail("call form in concrete evaluation")
		}
		arg := func(k int) any { return cEval(e, x.Args[k]) }
		switch id.Name {
		case "len":
			switch v := arg(0).(type) {
			case []any:
				return len(v)
			case string:
				return len(v)
			case nil:
				return 0
			}
		case "mem":
			s, _ := arg(0).([]any)
			v := arg(1)
			for _, el := range s {
				if cEqual(el, v) {
					return true
				}
			}
			return false
		case "nodup":
			s, _ := arg(0).([]any)
			for i := range s {
				for j := i + 1; j < len(s); j++ {
					if cEqual(s[i], s[j]) {
						return false
					}
				}
			}
			return true
		case "has":
			m := arg(0).(*cMap)
			_, ok := m.m[arg(1).(string)]
			return ok
		case "subset":
			a, _ := arg(0).([]any)
			b, _ := arg(1).([]any)
			for _, x := range a {
				found := false
				for _, y := range b {
					if cEqual(x, y) {
						found = true
					}
				}
				if !found {
					return false
				}
			}
			return true
		case "seteq":
			a, _ := arg(0).([]any)
			b, _ := arg(1).([]any)
			in := func(x any, s []any) bool {
				for _, y := range s {
					if cEqual(x, y) {
						return true
					}
				}
				return false
			}
			for _, x := range a {
				if !in(x, b) {
					return false
				}
			}
			for _, y := range b {
				if !in(y, a) {
					return false
				}
			}
			return true
		case "seqeq":
			a, _ := arg(0).([]any)
			b, _ := arg(1).([]any)
			if len(a) != len(b) {
				return false
			}
			for i := range a {
				if !cEqual(a[i], b[i]) {
					return false
				}
			}
			return true
		case "index":
			a, _ := arg(0).([]any)
			v := arg(1)
			for i, x := range a {
				if cEqual(x, v) {
					return i
				}
			}
			return -1
		case "odd":
			n := arg(0).(int)
			return n%2 != 0
		case "u8", "u16", "u32", "u64":
			n := arg(0).(int)
			switch id.Name {
			case "u8":
				return ((n % 256) + 256) % 256
			case "u16":
				return ((n % 65536) + 65536) % 65536
			case "u32":
				return ((n % 4294967296) + 4294967296) % 4294967296
			}
			if n < 0 {
				cfail("u64 of a negative value is outside the concrete evaluator")
			}
			return n
		case "min":
			a, b := arg(0).(int), arg(1).(int)
			if a < b {
				return a
			}
			return b
		case "max":
			a, b := arg(0).(int), arg(1).(int)
			if a > b {
				return a
			}
			return b
		case "fresh", "sameref", "unchanged", "same":
			cfail("%s is about memory identity: not decided by the concrete evaluator", id.Name)
		case "isnil":
			switch v := arg(0).(type) {
			case nil:
				return true
			case []any:
				return v == nil
			case *cMap:
				return v.nil
			}
			return false
		}
		if m := e.w.macroFor(id.Name, nil); m != nil && !m.Ufn {
			if e.depth > 60 {
				cfail("macro recursion")
			}
			n := &cEnv{w: e.w, names: map[string]any{}, strs: e.strs, maxInt: e.maxInt, depth: e.depth + 1}
			for i, p := range m.Params {
				n.names[p.Name] = cEval(e, x.Args[i])
			}
			return cEval(n, m.Body)
		}
		cfail("function %q not supported in concrete evaluation", id.Name)
	}
	cfail("expression %T not supported in concrete evaluation", x)
	return nil
}

func cQuant(e *cEnv, q SQuant, k int) bool {
	if k == len(q.Vars) {
		return cEval(e, q.Body).(bool)
	}
	b := q.Vars[k]
	var dom []any
	switch b.Type {
	case "string":
		for _, s := range e.strs {
			dom = append(dom, s)
		}
	case "int":
		for i := -1; i <= e.maxInt; i++ {
			dom = append(dom, i)
		}
	default:
		cfail("quantifier over type %s not supported in concrete evaluation", b.Type)
	}
	for _, v := range dom {
		r := cQuant(e.with(b.Name, v), q, k+1)
		if q.Forall && !r {
			return false
		}
		if !q.Forall && r {
			return true
		}
	}
	return q.Forall
}

func cEqual(a, b any) bool {
	switch x := a.(type) {
	case []any:
		y, ok := b.([]any)
		if !ok || len(x) != len(y) {
			return false
		}
		for i := range x {
			if !cEqual(x[i], y[i]) {
				return false
			}
		}
		return true
	case cStruct:
		y, ok := b.(cStruct)
		if !ok || len(x) != len(y) {
			return false
		}
		for k := range x {
			if !cEqual(x[k], y[k]) {
				return false
			}
		}
		return true
	}
	return a == b
}

// ---- ground schema values ----

func cSeq(names []string) []any {
	if names == nil {
		return nil
	}
	out := make([]any, len(names))
	for i, n := range names {
		out[i] = n
	}
	return out
}

func cState(d DumpState) cStruct {
	return cStruct{"Auto": d.Auto, "Multi": d.Multi, "Require": cSeq(d.Require), "Add": cSeq(d.Add), "Remove": cSeq(d.Remove), "After": cSeq(d.After), "Tags": []any(nil)}
}

func cSchema(ds DumpSchema) (*cMap, []string, int) {
	m := &cMap{m: map[string]any{}, def: cState(DumpState{})}
	uni := map[string]bool{"Exception": true, "\x00fresh-name": true}
	maxLen := 1
	for n, st := range ds.States {
		m.m[n] = cState(st)
		uni[n] = true
		for _, l := range [][]string{st.Require, st.Add, st.Remove, st.After} {
			if len(l) > maxLen {
				maxLen = len(l)
			}
			for _, x := range l {
				uni[x] = true
			}
		}
	}
	var strs []string
	for s := range uni {
		strs = append(strs, s)
	}
	sort.Strings(strs)
	return m, strs, maxLen
}

// evalGround evaluates predicate `name(args...)` concretely; returns the
// verdict or an error text when the predicate is outside the supported fragment.
func (w *World) evalGround(name string, env *cEnv, args ...string) (ok bool, err string) {
	defer func() {
		if r := recover(); r != nil {
			if ce, isC := r.(cErr); isC {
				err = ce.msg
				return
			}
			panic(r)
		}
	}()
	var as []SExpr
	for _, a := range args {
		as = append(as, SIdent{a})
	}
	return cEval(env, SCall{Fun: SIdent{name}, Args: as}).(bool), ""
}
