package main

// Symbolic executor over the typed AST: statements, control flow, loops.

import (
	"os"
	"bytes"
	"fmt"
	"go/ast"
	"go/printer"
	"go/token"
	"go/types"
	"sort"
	"strings"

	"golang.org/x/tools/go/packages"
)

type Val struct {
	T    string
	S    string
	Go   types.Type
	Clos *Closure
}

type Closure struct {
	Lit  *ast.FuncLit
	Decl *ast.FuncDecl // method value / function value of a declared function
	Recv *Val
	Pkg  *packages.Package
}

type deferred struct {
	call *ast.CallExpr
	cond string
	pkg  *packages.Package
}

type State struct {
	pc     string
	vars   map[types.Object]Val
	heap   map[string]Val // key -> array term (Array Int X) or global
	defers []deferred
	result []Val    // set at return
	parts  []*State // the states this one was merged from (valid until the next statement executes)
}

func (st *State) clone() *State {
	n := &State{pc: st.pc, vars: make(map[types.Object]Val, len(st.vars)), heap: make(map[string]Val, len(st.heap))}
	for k, v := range st.vars {
		n.vars[k] = v
	}
	for k, v := range st.heap {
		n.heap[k] = v
	}
	n.defers = append([]deferred(nil), st.defers...)
	return n
}

type loopCtx struct {
	label      string
	breaks     []*State
	onContinue func(st *State)
	isSwitch   bool
}

type fnCtx struct {
	decl     *ast.FuncDecl
	lit      *ast.FuncLit
	sig      *types.Signature
	results  []types.Object // named results (or nil)
	returns  []*State
	loops    []*loopCtx
	pkg      *packages.Package
	contract *Contract
	entry    *State
	depth    int
	top      bool
	loopOrd  *int
}

type Obl struct {
	Name   string
	Func   string
	Kind   string
	Goal   string
	NDecls int
	NFacts int
	Props  []string
	Text   string // human-readable clause text
	Pos    string
	// results
	Status  string
	Solver  string
	Seconds float64
	Output  string
	File    string
	Decided bool // status already determined (ground evaluation): no SMT query
}

type unsupported struct{ msg string }

// FV verifies one function (or lemma) against its contract.
type FV struct {
	w           *World
	sess        *Sess
	pkg         *packages.Package
	contract    *Contract
	fname       string // display name pkg.Recv.Func
	obls        []*Obl
	cnt         map[string]int
	notes       []string // abstractions performed
	assumed     map[string]bool
	fn          *fnCtx
	bcount      int // counter for unique bound-variable names
	pure        int // >0: no fresh constants, no obligations (closure-in-spec evaluation)
	tsub        map[string]types.Type
	specNames   map[string]Val // contract parameter/result names -> values
	oldState    *State
	loopOrd     int
	inlineDepth int
	lockset     map[string]bool
	escapes     int
	curState    *State           // state of the statement being executed (for allocation bookkeeping)
	loopIndex   map[ast.Stmt]int // loops of the function under contract, numbered in source order (closures included)
	uses        []string
	writtenHeap map[string]bool
}

func (fv *FV) unsupported(f string, a ...any) {
	panic(unsupported{fmt.Sprintf(f, a...)})
}

func (fv *FV) note(f string, a ...any) {
	s := fmt.Sprintf(f, a...)
	for _, n := range fv.notes {
		if n == s {
			return
		}
	}
	fv.notes = append(fv.notes, s)
}

func (fv *FV) assume(st *State, f string) {
	if fv.pure > 0 {
		return
	}
	fv.sess.fact(implies(st.pc, f))
}

func (fv *FV) assumeHint(st *State, sym, f string) {
	if fv.pure > 0 {
		return
	}
	fv.sess.hint(sym, implies(st.pc, f))
}

// name introduces a definitional constant for a term when it is large.
func (fv *FV) name(prefix string, v Val) Val {
	if fv.pure > 0 || len(v.T) < 120 {
		return v
	}
	c := fv.sess.fresh(prefix, v.S)
	fv.sess.fact(fmt.Sprintf("(= %s %s)", c, v.T))
	v.T = c
	return v
}

func (fv *FV) nameAlways(prefix string, v Val) Val {
	if fv.pure > 0 || len(v.T) < 24 {
		return v
	}
	c := fv.sess.fresh(prefix, v.S)
	fv.sess.fact(fmt.Sprintf("(= %s %s)", c, v.T))
	v.T = c
	return v
}

func (fv *FV) freshVal(prefix string, t types.Type) Val {
	s := fv.sess.sortOf(t)
	if fv.pure > 0 {
		fv.unsupported("fresh value needed in pure context (%s)", prefix)
	}
	c := fv.sess.fresh(prefix, s)
	v := Val{T: c, S: s, Go: t}
	if inv := fv.typeInv(v.T, t, 0); inv != "true" {
		fv.sess.fact(inv)
	}
	return v
}

func (fv *FV) freshSort(prefix, sort string) Val {
	if fv.pure > 0 {
		fv.unsupported("fresh value needed in pure context (%s)", prefix)
	}
	return Val{T: fv.sess.fresh(prefix, sort), S: sort}
}

// typeInv: the invariant every value of Go type t satisfies (ranges of
// machine integers, non-negative lengths, nil slices are empty).
func (fv *FV) typeInv(term string, t types.Type, depth int) string {
	if t == nil || depth > 2 {
		return "true"
	}
	switch tt := types.Unalias(t).(type) {
	case *types.Named:
		if obj := tt.Obj(); obj.Pkg() != nil {
			switch obj.Pkg().Path() + "." + obj.Name() {
			case "sync/atomic.Int32":
				return intRange(term, types.Typ[types.Int32])
			case "sync/atomic.Int64":
				return intRange(term, types.Typ[types.Int64])
			case "sync/atomic.Uint32":
				return intRange(term, types.Typ[types.Uint32])
			case "sync/atomic.Uint64":
				return intRange(term, types.Typ[types.Uint64])
			case "sync.Mutex", "sync.RWMutex":
				return fmt.Sprintf("(and (<= 0 %s) (<= %s 2))", term, term)
			}
		}
		if _, ok := tt.Underlying().(*types.Struct); ok {
			if !strings.HasPrefix(fv.sess.sortOf(tt), "St_") {
				return "true" // library type mapped to a primitive sort
			}
			return fv.structInv(term, tt, depth)
		}
		return fv.typeInv(term, tt.Underlying(), depth)
	case *types.Basic:
		return intRange(term, tt)
	case *types.Slice:
		parts := []string{
			fmt.Sprintf("(>= (sq.len %s) 0)", term),
			fmt.Sprintf("(<= (sq.len %s) 9223372036854775807)", term),
			fmt.Sprintf("(>= (sq.ref %s) 0)", term),
			fmt.Sprintf("(=> (= (sq.ref %s) 0) (= (sq.len %s) 0))", term, term),
		}
		ei := fv.typeInv(fmt.Sprintf("(select (sq.arr %s) i!q)", term), tt.Elem(), depth+1)
		if ei != "true" {
			if strings.Contains(term, "(ite ") {
				// no `ite` inside patterns (z3 rejects them): let the solver choose
				parts = append(parts, fmt.Sprintf("(forall ((i!q Int)) %s)", ei))
			} else {
				parts = append(parts, fmt.Sprintf("(forall ((i!q Int)) (! %s :pattern ((select (sq.arr %s) i!q))))", ei, term))
			}
		}
		return and(parts...)
	case *types.Array:
		parts := []string{fmt.Sprintf("(= (sq.len %s) %d)", term, tt.Len())}
		ei := fv.typeInv(fmt.Sprintf("(select (sq.arr %s) i!q)", term), tt.Elem(), depth+1)
		if ei != "true" {
			if strings.Contains(term, "(ite ") {
				// no `ite` inside patterns (z3 rejects them): let the solver choose
				parts = append(parts, fmt.Sprintf("(forall ((i!q Int)) %s)", ei))
			} else {
				parts = append(parts, fmt.Sprintf("(forall ((i!q Int)) (! %s :pattern ((select (sq.arr %s) i!q))))", ei, term))
			}
		}
		return and(parts...)
	case *types.Map:
		parts := []string{
			fmt.Sprintf("(>= (mp.ref %s) 0)", term),
			fmt.Sprintf("(=> (= (mp.ref %s) 0) (forall ((k!q %s)) (! (not (select (mp.dom %s) k!q)) :pattern ((select (mp.dom %s) k!q)))))", term, fv.sess.sortOf(tt.Key()), term, term),
		}
		ei := fv.typeInv(fmt.Sprintf("(select (mp.val %s) k!q)", term), tt.Elem(), depth+1)
		if ei != "true" {
			parts = append(parts, fmt.Sprintf("(forall ((k!q %s)) (! %s :pattern ((select (mp.val %s) k!q))))", fv.sess.sortOf(tt.Key()), ei, term))
		}
		return and(parts...)
	case *types.Pointer, *types.Chan:
		return fmt.Sprintf("(>= %s 0)", term)
	case *types.TypeParam:
		if u := coreType(tt); u != nil {
			return fv.typeInv(term, u, depth)
		}
	}
	return "true"
}

// lemmaInv: the weaker invariant used for lemma parameters, both when the
// lemma is proved and when its statement is used: no element-wise ranges
// (a lemma that needs them states them as requires).
func (fv *FV) lemmaInv(term string, t types.Type) string {
	switch tt := types.Unalias(t).Underlying().(type) {
	case *types.Slice:
		return fmt.Sprintf("(and (>= (sq.len %s) 0) (>= (sq.ref %s) 0))", term, term)
	case *types.Map:
		_ = tt
		return fmt.Sprintf("(>= (mp.ref %s) 0)", term)
	case *types.Basic:
		// signed integer parameters of lemmas are mathematical integers
		if tt.Info()&types.IsInteger != 0 && tt.Info()&types.IsUnsigned == 0 {
			return "true"
		}
	}
	return fv.typeInv(term, t, 0)
}

func (fv *FV) structInv(term string, nt *types.Named, depth int) string {
	st := nt.Underlying().(*types.Struct)
	sname := fv.sess.sortOf(nt)
	var parts []string
	for i := 0; i < st.NumFields(); i++ {
		f := st.Field(i)
		p := fv.typeInv(fmt.Sprintf("(%s.%s %s)", sname, sanitize(f.Name()), term), f.Type(), depth+1)
		if p != "true" {
			parts = append(parts, p)
		}
	}
	return and(parts...)
}

func intRange(term string, b *types.Basic) string {
	if b.Info()&types.IsInteger == 0 {
		return "true"
	}
	lo, hi := intBounds(b)
	if lo == "" {
		return "true"
	}
	return fmt.Sprintf("(and (<= %s %s) (<= %s %s))", intLit(lo), term, term, hi)
}

func intBounds(b *types.Basic) (string, string) {
	switch b.Kind() {
	case types.Int8:
		return "-128", "127"
	case types.Int16:
		return "-32768", "32767"
	case types.Int32:
		return "-2147483648", "2147483647"
	case types.Int, types.Int64:
		return "-9223372036854775808", "9223372036854775807"
	case types.Uint8:
		return "0", "255"
	case types.Uint16:
		return "0", "65535"
	case types.Uint32:
		return "0", "4294967295"
	case types.Uint, types.Uint64, types.Uintptr:
		return "0", "18446744073709551615"
	}
	return "", ""
}

func uintMod(t types.Type) string {
	b, ok := types.Unalias(t).Underlying().(*types.Basic)
	if !ok {
		if tp, ok2 := t.(*types.TypeParam); ok2 {
			if u := coreType(tp); u != nil {
				return uintMod(u)
			}
		}
		return ""
	}
	switch b.Kind() {
	case types.Uint8:
		return "256"
	case types.Uint16:
		return "65536"
	case types.Uint32:
		return "4294967296"
	case types.Uint, types.Uint64, types.Uintptr:
		return "18446744073709551616"
	}
	return ""
}

// ---------- obligations ----------

func (fv *FV) exprText(e ast.Node) string {
	var b bytes.Buffer
	printer.Fprint(&b, fv.w.fset, e)
	s := b.String()
	s = strings.Join(strings.Fields(s), " ")
	if len(s) > 60 {
		s = s[:60]
	}
	return s
}

func (fv *FV) oblige(st *State, kind, label, goal, text string, pos token.Pos) {
	if fv.pure > 0 {
		return
	}
	if goal == "true" {
		// still count it: trivially discharged
	}
	base := fv.fname + "#" + kind
	if label != "" {
		base += "." + label
	}
	fv.cnt[base]++
	name := base
	if fv.cnt[base] > 1 {
		name = fmt.Sprintf("%s~%d", base, fv.cnt[base])
	}
	o := &Obl{Name: name, Func: fv.fname, Kind: kind, Goal: implies(st.pc, goal), NDecls: len(fv.sess.decls), NFacts: len(fv.sess.facts), Text: text}
	if pos.IsValid() {
		p := fv.w.fset.Position(pos)
		o.Pos = fmt.Sprintf("%s:%d", p.Filename, p.Line)
	}
	if fv.contract != nil {
		o.Props = fv.contract.Props
	}
	fv.obls = append(fv.obls, o)
	// after asserting, the fact may be assumed downstream (pointless for
	// obligations at the end of a path)
	if !strings.HasPrefix(kind, "ensures") && !strings.Contains(kind, ".keep") && !strings.Contains(kind, ".term") && kind != "assigns" {
		fv.assume(st, goal)
	}
}

func (fv *FV) safe(st *State, kind string, e ast.Node, goal string) {
	if fv.pure > 0 || goal == "true" {
		return
	}
	if fv.inlineDepth > 0 && fv.fn != nil && !fv.fn.top {
		// inside an inlined callee: still an obligation of the caller
		kind = kind
	}
	fv.oblige(st, "safe."+kind, "("+fv.exprText(e)+")", goal, fv.exprText(e), e.Pos())
}

// ---------- state merging ----------

func (fv *FV) merge(states []*State) *State {
	var live []*State
	for _, s := range states {
		if s != nil && s.pc != "false" {
			live = append(live, s)
		}
	}
	if len(live) == 0 {
		return nil
	}
	if len(live) == 1 {
		return live[0]
	}
	out := &State{vars: map[types.Object]Val{}, heap: map[string]Val{}}
	for _, s := range live {
		if len(s.parts) > 0 {
			out.parts = append(out.parts, s.parts...)
		} else {
			out.parts = append(out.parts, s)
		}
	}
	var pcs []string
	for _, s := range live {
		pcs = append(pcs, s.pc)
	}
	out.pc = fv.namePC(or(pcs...))
	// vars present in all
	for obj, v0 := range live[0].vars {
		all := true
		same := true
		for _, s := range live[1:] {
			v, ok := s.vars[obj]
			if !ok {
				all = false
				break
			}
			if v.T != v0.T || v.Clos != v0.Clos {
				same = false
			}
		}
		if !all {
			continue
		}
		if same {
			out.vars[obj] = v0
			continue
		}
		if v0.Clos != nil {
			continue // differing closures: drop (use would be unsupported)
		}
		t := live[len(live)-1].vars[obj].T
		for i := len(live) - 2; i >= 0; i-- {
			t = ite(live[i].pc, live[i].vars[obj].T, t)
		}
		out.vars[obj] = fv.nameAlways(obj.Name(), Val{T: t, S: v0.S, Go: v0.Go})
	}
	keys := map[string]bool{}
	for _, s := range live {
		for k := range s.heap {
			keys[k] = true
		}
	}
	var ks []string
	for k := range keys {
		ks = append(ks, k)
	}
	sort.Strings(ks)
	for _, k := range ks {
		var vals []Val
		for _, s := range live {
			v, ok := s.heap[k]
			if !ok {
				if k == "$alloc" {
					v = Val{T: "alloc0", S: "Int"}
				} else {
					v = fv.heapInit(k, Val{})
				}
			}
			vals = append(vals, v)
		}
		same := true
		for _, v := range vals[1:] {
			if v.T != vals[0].T {
				same = false
			}
		}
		if same {
			out.heap[k] = vals[0]
			continue
		}
		t := vals[len(vals)-1].T
		for i := len(live) - 2; i >= 0; i-- {
			t = ite(live[i].pc, vals[i].T, t)
		}
		out.heap[k] = fv.nameAlways("H", Val{T: t, S: vals[0].S, Go: vals[0].Go})
	}
	// defers: union with conditions
	sameDefers := true
	for _, s := range live[1:] {
		if len(s.defers) != len(live[0].defers) {
			sameDefers = false
			break
		}
		for i := range s.defers {
			if s.defers[i].call != live[0].defers[i].call || s.defers[i].cond != live[0].defers[i].cond {
				sameDefers = false
			}
		}
	}
	if sameDefers {
		out.defers = live[0].defers
	} else {
		// common prefix kept, others conditional on the originating path
		for _, s := range live {
			for _, d := range s.defers {
				found := false
				for _, o := range out.defers {
					if o.call == d.call {
						found = true
					}
				}
				if found {
					continue
				}
				// condition: or of pcs of states that have it
				var cs []string
				for _, s2 := range live {
					for _, d2 := range s2.defers {
						if d2.call == d.call {
							cs = append(cs, and(s2.pc, d2.cond))
						}
					}
				}
				out.defers = append(out.defers, deferred{call: d.call, cond: or(cs...), pkg: d.pkg})
			}
		}
	}
	return out
}

func (fv *FV) namePC(pc string) string {
	if fv.pure > 0 || len(pc) < 80 {
		return pc
	}
	c := fv.sess.fresh("pc", "Bool")
	fv.sess.fact(fmt.Sprintf("(= %s %s)", c, pc))
	return c
}

func (fv *FV) branch(st *State, cond string) (*State, *State) {
	a := st.clone()
	b := st
	a.pc = fv.namePC(and(st.pc, cond))
	b2 := b.clone()
	b2.pc = fv.namePC(and(st.pc, not(cond)))
	return a, b2
}

// ---------- statements ----------

func (fv *FV) execBlock(st *State, list []ast.Stmt) *State {
	for _, s := range list {
		if st == nil {
			return nil
		}
		st = fv.execStmt(st, s, "")
	}
	return st
}

func (fv *FV) info() *types.Info { return fv.fn.pkg.TypesInfo }

func (fv *FV) execStmt(st *State, s ast.Stmt, label string) *State {
	st.parts = nil
	fv.curState = st
	switch s := s.(type) {
	case *ast.BlockStmt:
		return fv.execBlock(st, s.List)
	case *ast.ExprStmt:
		fv.eval(st, s.X)
		if call, ok := s.X.(*ast.CallExpr); ok {
			if id, ok := call.Fun.(*ast.Ident); ok && id.Name == "panic" {
				if _, isB := fv.info().Uses[id].(*types.Builtin); isB {
					fv.escapes++
					return nil
				}
			}
		}
		return st
	case *ast.AssignStmt:
		fv.execAssign(st, s)
		return st
	case *ast.DeclStmt:
		gd := s.Decl.(*ast.GenDecl)
		if gd.Tok != token.VAR {
			return st
		}
		for _, sp := range gd.Specs {
			vs := sp.(*ast.ValueSpec)
			if len(vs.Values) == len(vs.Names) {
				for i, n := range vs.Names {
					v := fv.eval(st, vs.Values[i])
					obj := fv.info().Defs[n]
					if obj != nil {
						v = fv.convertTo(st, v, obj.Type())
						st.vars[obj] = v
					}
				}
			} else if len(vs.Values) == 0 {
				for _, n := range vs.Names {
					obj := fv.info().Defs[n]
					if obj != nil {
						st.vars[obj] = fv.zero(obj.Type())
					}
				}
			} else {
				vals := fv.evalMulti(st, vs.Values[0])
				for i, n := range vs.Names {
					obj := fv.info().Defs[n]
					if obj != nil && i < len(vals) {
						st.vars[obj] = vals[i]
					}
				}
			}
		}
		return st
	case *ast.IncDecStmt:
		one := &ast.BasicLit{Kind: token.INT, Value: "1"}
		op := token.ADD
		if s.Tok == token.DEC {
			op = token.SUB
		}
		cur := fv.eval(st, s.X)
		t := fv.info().TypeOf(s.X)
		nv := fv.arith(st, op, cur, Val{T: "1", S: "Int", Go: t}, t, s)
		_ = one
		fv.assign(st, s.X, nv)
		return st
	case *ast.ReturnStmt:
		fv.escapes++
		fv.execReturn(st, s)
		return nil
	case *ast.IfStmt:
		if s.Init != nil {
			st = fv.execStmt(st, s.Init, "")
		}
		c := fv.eval(st, s.Cond)
		pc0 := st.pc
		esc0 := fv.escapes
		a, b := fv.branch(st, c.T)
		a = fv.execBlock(a, s.Body.List)
		if s.Else != nil {
			b = fv.execStmt(b, s.Else, "")
		}
		m := fv.merge([]*State{a, b})
		if m != nil && a != nil && b != nil && fv.escapes == esc0 {
			// both branches fell through and nothing escaped: the join is
			// reached exactly when the if statement was
			m.pc = pc0
		}
		return m
	case *ast.ForStmt:
		return fv.execFor(st, s, label)
	case *ast.RangeStmt:
		return fv.execRange(st, s, label)
	case *ast.SwitchStmt:
		return fv.execSwitch(st, s, label)
	case *ast.TypeSwitchStmt:
		return fv.execTypeSwitch(st, s, label)
	case *ast.LabeledStmt:
		return fv.execStmt(st, s.Stmt, s.Label.Name)
	case *ast.BranchStmt:
		fv.escapes++
		switch s.Tok {
		case token.BREAK:
			lc := fv.findLoop(s.Label, true)
			lc.breaks = append(lc.breaks, st)
			return nil
		case token.CONTINUE:
			lc := fv.findLoop(s.Label, false)
			lc.onContinue(st)
			return nil
		case token.FALLTHROUGH:
			fv.unsupported("fallthrough")
		case token.GOTO:
			fv.unsupported("goto")
		}
	case *ast.DeferStmt:
		// arguments of deferred calls are evaluated now; we only support
		// argument-free or argument-pure deferred calls and closures.
		st.defers = append(st.defers, deferred{call: s.Call, cond: "true", pkg: fv.fn.pkg})
		return st
	case *ast.GoStmt:
		fv.note("go statement at %s: spawned body not executed here (verified separately if under contract)", fv.posStr(s.Pos()))
		return st
	case *ast.SendStmt:
		fv.eval(st, s.Value)
		fv.note("channel send abstracted")
		return st
	case *ast.SelectStmt:
		return fv.execSelect(st, s, label)
	case *ast.EmptyStmt:
		return st
	}
	fv.unsupported("statement %T", s)
	return nil
}

func (fv *FV) posStr(p token.Pos) string {
	pp := fv.w.fset.Position(p)
	return fmt.Sprintf("%s:%d", shortPath(pp.Filename), pp.Line)
}

func shortPath(p string) string { return strings.TrimPrefix(p, "/repo/") }

func (fv *FV) findLoop(label *ast.Ident, isBreak bool) *loopCtx {
	ls := fv.fn.loops
	for i := len(ls) - 1; i >= 0; i-- {
		lc := ls[i]
		if label != nil {
			if lc.label == label.Name {
				return lc
			}
			continue
		}
		if lc.isSwitch && !isBreak {
			continue
		}
		return lc
	}
	fv.unsupported("branch target not found")
	return nil
}

func (fv *FV) execAssign(st *State, s *ast.AssignStmt) {
	if s.Tok != token.ASSIGN && s.Tok != token.DEFINE {
		// op-assign
		var op token.Token
		switch s.Tok {
		case token.ADD_ASSIGN:
			op = token.ADD
		case token.SUB_ASSIGN:
			op = token.SUB
		case token.MUL_ASSIGN:
			op = token.MUL
		case token.QUO_ASSIGN:
			op = token.QUO
		case token.REM_ASSIGN:
			op = token.REM
		case token.OR_ASSIGN:
			op = token.OR
		case token.AND_ASSIGN:
			op = token.AND
		case token.SHL_ASSIGN:
			op = token.SHL
		case token.SHR_ASSIGN:
			op = token.SHR
		case token.XOR_ASSIGN:
			op = token.XOR
		default:
			fv.unsupported("assign op %v", s.Tok)
		}
		cur := fv.eval(st, s.Lhs[0])
		rhs := fv.eval(st, s.Rhs[0])
		t := fv.info().TypeOf(s.Lhs[0])
		nv := fv.arith(st, op, cur, rhs, t, s)
		fv.assign(st, s.Lhs[0], nv)
		return
	}
	if len(s.Lhs) == len(s.Rhs) {
		vals := make([]Val, len(s.Rhs))
		for i, r := range s.Rhs {
			vals[i] = fv.eval(st, r)
			if lt := fv.info().TypeOf(s.Lhs[i]); lt != nil {
				vals[i] = fv.convertTo(st, vals[i], lt)
			}
		}
		for i, l := range s.Lhs {
			fv.assign(st, l, vals[i])
		}
		return
	}
	vals := fv.evalMulti(st, s.Rhs[0])
	if len(vals) != len(s.Lhs) {
		fv.unsupported("assignment arity")
	}
	for i, l := range s.Lhs {
		fv.assign(st, l, vals[i])
	}
}

func (fv *FV) execReturn(st *State, s *ast.ReturnStmt) {
	fn := fv.fn
	nres := fn.sig.Results().Len()
	var vals []Val
	if len(s.Results) == 0 {
		for _, o := range fn.results {
			v, ok := st.vars[o]
			if !ok {
				v = fv.zero(o.Type())
			}
			vals = append(vals, v)
		}
	} else if len(s.Results) == nres {
		for i, r := range s.Results {
			v := fv.eval(st, r)
			v = fv.convertTo(st, v, fn.sig.Results().At(i).Type())
			vals = append(vals, v)
		}
	} else {
		vals = fv.evalMulti(st, s.Results[0])
	}
	// named results are assigned before deferred functions run
	for i, o := range fn.results {
		if i < len(vals) && o != nil {
			st.vars[o] = vals[i]
		}
	}
	st = fv.runDefers(st)
	if st == nil {
		return
	}
	if len(fn.results) > 0 {
		for i, o := range fn.results {
			if v, ok := st.vars[o]; ok && o.Name() != "" && o.Name() != "_" {
				vals[i] = v
			}
		}
	}
	st.result = vals
	fn.returns = append(fn.returns, st)
}

func (fv *FV) runDefers(st *State) *State {
	ds := st.defers
	st.defers = nil
	for i := len(ds) - 1; i >= 0 && st != nil; i-- {
		d := ds[i]
		if d.cond == "true" {
			fv.execDeferred(st, d)
			continue
		}
		a, b := fv.branch(st, d.cond)
		fv.execDeferred(a, d)
		st = fv.merge([]*State{a, b})
	}
	return st
}

func (fv *FV) execDeferred(st *State, d deferred) {
	savedPkg := fv.fn.pkg
	fv.fn.pkg = d.pkg
	defer func() { fv.fn.pkg = savedPkg }()
	// deferred closure with recover(): abstract
	if lit, ok := d.call.Fun.(*ast.FuncLit); ok {
		if containsRecover(lit.Body) {
			fv.note("deferred recover() closure at %s not executed (panic paths are separate obligations)", fv.posStr(lit.Pos()))
			return
		}
	}
	fv.eval(st, d.call)
}

func containsRecover(n ast.Node) bool {
	found := false
	ast.Inspect(n, func(x ast.Node) bool {
		if c, ok := x.(*ast.CallExpr); ok {
			if id, ok := c.Fun.(*ast.Ident); ok && id.Name == "recover" {
				found = true
			}
		}
		return !found
	})
	return found
}

// ---------- switch ----------

func (fv *FV) execSwitch(st *State, s *ast.SwitchStmt, label string) *State {
	if s.Init != nil {
		st = fv.execStmt(st, s.Init, "")
	}
	var tag *Val
	if s.Tag != nil {
		v := fv.eval(st, s.Tag)
		tag = &v
	}
	lc := &loopCtx{label: label, isSwitch: true}
	fv.fn.loops = append(fv.fn.loops, lc)
	defer func() { fv.fn.loops = fv.fn.loops[:len(fv.fn.loops)-1] }()
	var outs []*State
	rest := st
	var deflt *ast.CaseClause
	for _, cc := range s.Body.List {
		c := cc.(*ast.CaseClause)
		if c.List == nil {
			deflt = c
			continue
		}
		if rest == nil {
			break
		}
		var conds []string
		for _, e := range c.List {
			v := fv.eval(rest, e)
			if tag != nil {
				conds = append(conds, fv.eqVals(*tag, v))
			} else {
				conds = append(conds, v.T)
			}
		}
		a, b := fv.branch(rest, or(conds...))
		for _, bs := range c.Body {
			if br, ok := bs.(*ast.BranchStmt); ok && br.Tok == token.FALLTHROUGH {
				fv.unsupported("fallthrough")
			}
		}
		a = fv.execBlock(a, c.Body)
		outs = append(outs, a)
		rest = b
	}
	if deflt != nil && rest != nil {
		rest = fv.execBlock(rest, deflt.Body)
	}
	outs = append(outs, rest)
	outs = append(outs, lc.breaks...)
	return fv.merge(outs)
}

func (fv *FV) execTypeSwitch(st *State, s *ast.TypeSwitchStmt, label string) *State {
	if s.Init != nil {
		st = fv.execStmt(st, s.Init, "")
	}
	fv.note("type switch at %s: case choice nondeterministic", fv.posStr(s.Pos()))
	var x ast.Expr
	switch a := s.Assign.(type) {
	case *ast.AssignStmt:
		x = a.Rhs[0].(*ast.TypeAssertExpr).X
	case *ast.ExprStmt:
		x = a.X.(*ast.TypeAssertExpr).X
	}
	fv.eval(st, x)
	lc := &loopCtx{label: label, isSwitch: true}
	fv.fn.loops = append(fv.fn.loops, lc)
	defer func() { fv.fn.loops = fv.fn.loops[:len(fv.fn.loops)-1] }()
	var outs []*State
	rest := st
	hasDefault := false
	for _, cc := range s.Body.List {
		c := cc.(*ast.CaseClause)
		if rest == nil {
			break
		}
		if c.List == nil {
			hasDefault = true
		}
		g := fv.freshSort("tsw", "Bool")
		a, b := fv.branch(rest, g.T)
		if obj := fv.info().Implicits[c]; obj != nil {
			a.vars[obj] = fv.freshVal(obj.Name(), obj.Type())
		}
		a = fv.execBlock(a, c.Body)
		outs = append(outs, a)
		rest = b
	}
	_ = hasDefault
	outs = append(outs, rest)
	outs = append(outs, lc.breaks...)
	return fv.merge(outs)
}

func (fv *FV) execSelect(st *State, s *ast.SelectStmt, label string) *State {
	fv.note("select at %s: ready case chosen nondeterministically, received values havoc'd", fv.posStr(s.Pos()))
	lc := &loopCtx{label: label, isSwitch: true}
	fv.fn.loops = append(fv.fn.loops, lc)
	defer func() { fv.fn.loops = fv.fn.loops[:len(fv.fn.loops)-1] }()
	var outs []*State
	// on entry every channel operand (and send value) is evaluated once, in source order:
	// calls made there (mach.WhenQueue(res), ctx.Done(), time.After(d)) do happen
	for _, cc := range s.Body.List {
		c := cc.(*ast.CommClause)
		var rx ast.Expr
		switch cm := c.Comm.(type) {
		case *ast.ExprStmt:
			rx = cm.X
		case *ast.AssignStmt:
			if len(cm.Rhs) == 1 {
				rx = cm.Rhs[0]
			}
		case *ast.SendStmt:
			fv.eval(st, cm.Chan)
			fv.eval(st, cm.Value)
		}
		if u, ok := unparen(rx).(*ast.UnaryExpr); rx != nil && ok && u.Op == token.ARROW {
			fv.eval(st, u.X)
		}
	}
	rest := st
	n := len(s.Body.List)
	for i, cc := range s.Body.List {
		c := cc.(*ast.CommClause)
		if rest == nil {
			break
		}
		var a *State
		if i == n-1 {
			a, rest = rest, nil
		} else {
			g := fv.freshSort("sel", "Bool")
			a, rest = fv.branch(rest, g.T)
		}
		if c.Comm != nil {
			switch cm := c.Comm.(type) {
			case *ast.AssignStmt:
				// v := <-ch  / v, ok := <-ch
				for _, l := range cm.Lhs {
					if id, ok := l.(*ast.Ident); ok {
						if obj := fv.info().Defs[id]; obj != nil {
							a.vars[obj] = fv.freshVal(id.Name, obj.Type())
						} else if obj := fv.info().Uses[id]; obj != nil && id.Name != "_" {
							a.vars[obj] = fv.freshVal(id.Name, obj.Type())
						}
					}
				}
			case *ast.ExprStmt, *ast.SendStmt:
			}
		}
		a = fv.execBlock(a, c.Body)
		outs = append(outs, a)
	}
	outs = append(outs, rest)
	outs = append(outs, lc.breaks...)
	return fv.merge(outs)
}

// ---------- loops ----------

// assignedIn computes the local objects and heap keys that a statement may
// assign (syntactic over-approximation, including callee frames).
type modSet struct {
	vars    map[types.Object]bool
	heap    map[string]bool
	heapAll bool
	// bases: for a heap key, the base expressions (simple identifiers) whose
	// objects are written; absent or containing nil = any object
	bases map[string][]*ast.Ident
}

func (ms *modSet) addBase(key string, id *ast.Ident) {
	if ms.bases == nil {
		ms.bases = map[string][]*ast.Ident{}
	}
	ms.bases[key] = append(ms.bases[key], id)
}

func (fv *FV) modifies(n ast.Node) *modSet {
	ms := &modSet{vars: map[types.Object]bool{}, heap: map[string]bool{}, bases: map[string][]*ast.Ident{}}
	fv.collectMods(n, ms, 0)
	return ms
}

func (fv *FV) rootObj(e ast.Expr) types.Object {
	for {
		switch x := e.(type) {
		case *ast.Ident:
			if o := fv.info().Uses[x]; o != nil {
				return o
			}
			return fv.info().Defs[x]
		case *ast.SelectorExpr:
			// stop at pointer deref: then it's a heap write, not a var write
			if t := fv.info().TypeOf(x.X); t != nil {
				if _, isPtr := types.Unalias(t).Underlying().(*types.Pointer); isPtr {
					return nil
				}
			}
			e = x.X
		case *ast.IndexExpr:
			e = x.X
		case *ast.ParenExpr:
			e = x.X
		case *ast.StarExpr:
			return nil
		default:
			return nil
		}
	}
}

func (fv *FV) heapKeysOfLhs(e ast.Expr, ms *modSet) {
	switch x := e.(type) {
	case *ast.SelectorExpr:
		if sel := fv.info().Selections[x]; sel != nil {
			// find the first pointer hop on the path
			keys := fv.selectionHeapKeys(sel)
			if len(keys) > 0 {
				k := keys[len(keys)-1]
				ms.heap[k] = true
				// base identifier known? (x.f with x a plain identifier and a single pointer hop)
				if id, ok := unparen(x.X).(*ast.Ident); ok && len(keys) == 1 && isPointer(sel.Recv()) {
					ms.addBase(k, id)
				} else {
					ms.addBase(k, nil)
				}
				return
			}
		}
		fv.heapKeysOfLhs(x.X, ms)
	case *ast.IndexExpr:
		fv.heapKeysOfLhs(x.X, ms)
	case *ast.ParenExpr:
		fv.heapKeysOfLhs(x.X, ms)
	case *ast.StarExpr:
		if t := fv.info().TypeOf(x.X); t != nil {
			if p, ok := types.Unalias(t).Underlying().(*types.Pointer); ok {
				for _, k := range fv.allFieldKeys(p.Elem()) {
					ms.heap[k] = true
				}
			}
		}
	case *ast.Ident:
		if o := fv.info().Uses[x]; o != nil {
			if v, ok := o.(*types.Var); ok && v.Parent() == v.Pkg().Scope() {
				ms.heap[globalKey(v)] = true
			}
		}
	}
}

func globalKey(v *types.Var) string { return "G:" + v.Pkg().Path() + "." + v.Name() }

func (fv *FV) collectMods(n ast.Node, ms *modSet, depth int) {
	ast.Inspect(n, func(x ast.Node) bool {
		switch s := x.(type) {
		case *ast.AssignStmt:
			for _, l := range s.Lhs {
				if o := fv.rootObj(l); o != nil {
					ms.vars[o] = true
				}
				fv.heapKeysOfLhs(l, ms)
			}
		case *ast.IncDecStmt:
			if o := fv.rootObj(s.X); o != nil {
				ms.vars[o] = true
			}
			fv.heapKeysOfLhs(s.X, ms)
		case *ast.RangeStmt:
			for _, e := range []ast.Expr{s.Key, s.Value} {
				if e != nil {
					if o := fv.rootObj(e); o != nil {
						ms.vars[o] = true
					}
				}
			}
		case *ast.DeclStmt:
			if gd, ok := s.Decl.(*ast.GenDecl); ok {
				for _, sp := range gd.Specs {
					if vs, ok := sp.(*ast.ValueSpec); ok {
						for _, nm := range vs.Names {
							if o := fv.info().Defs[nm]; o != nil {
								ms.vars[o] = true
							}
						}
					}
				}
			}
		case *ast.CallExpr:
			fv.callMods(s, ms, depth)
		case *ast.UnaryExpr:
			if s.Op == token.ARROW {
				// receive: no state change modelled
			}
		}
		return true
	})
}

// ---------- for / range ----------

func (fv *FV) loopLets(st *State, ord int, pos token.Pos) {
	if fv.contract == nil || ord <= 0 {
		return
	}
	for _, l := range fv.contract.LoopLets {
		if l.Loop == ord {
			fv.specNames[l.Name] = fv.evalSpec(fv.specEnvAt(st, pos), l.Expr)
		}
	}
}

// ordOf: the source-order ordinal of a loop of the function under contract
// (loops of inlined callees have none and take no invariants).
func (fv *FV) ordOf(s ast.Stmt) int {
	if n, ok := fv.loopIndex[s]; ok {
		return n
	}
	return -1
}

func (fv *FV) loopClauses(ord int) (invs []Clause, dec *Clause) {
	if fv.contract == nil || ord <= 0 {
		return nil, nil
	}
	for i := range fv.contract.Loops {
		c := fv.contract.Loops[i]
		if c.Loop != ord {
			continue
		}
		if c.Kind == "invariant" || c.Kind == "assume" {
			// "assume": taken at the loop head without being checked (listed in the
			// evidence as an unchecked assumption; used for tick-overflow room only)
			invs = append(invs, c)
		} else if c.Kind == "decreases" {
			cc := c
			dec = &cc
		}
	}
	return
}

func (fv *FV) havocMods(st *State, ms *modSet, what string) {
	var objs []types.Object
	for o := range ms.vars {
		if _, ok := st.vars[o]; ok {
			objs = append(objs, o)
		}
	}
	sort.Slice(objs, func(i, j int) bool { return objs[i].Pos() < objs[j].Pos() })
	fv.advanceAlloc(st)
	for _, o := range objs {
		old := st.vars[o]
		if old.Clos != nil {
			continue
		}
		nv := fv.freshVal(o.Name(), o.Type())
		fv.liveRef(st, nv)
		st.vars[o] = nv
	}
	if ms.heapAll {
		if os.Getenv("GOCV_DEBUG_MODS") != "" {
			fmt.Fprintf(os.Stderr, "heapAll havoc in %s\n", what)
		}
		for _, k := range sortedKeys(st.heap) {
			fv.havocHeapKey(st, k)
		}
		fv.note("%s: whole heap havoc'd", what)
		return
	}
	for _, k := range sortedKeys(ms.heap) {
		bases, ok := ms.bases[k]
		precise := ok && len(bases) > 0
		var refs []string
		for _, id := range bases {
			if id == nil {
				precise = false
				break
			}
			obj := fv.info().Uses[id]
			if obj == nil || ms.vars[obj] {
				precise = false
				break
			}
			v, has := st.vars[obj]
			if !has {
				precise = false
				break
			}
			refs = append(refs, v.T)
		}
		if !precise {
			if os.Getenv("GOCV_DEBUG_MODS") != "" {
				fmt.Fprintf(os.Stderr, "imprecise havoc %s in %s: bases=%v\n", k, what, bases)
			}
			fv.havocHeapKey(st, k)
			continue
		}
		// only the named objects' cells change
		cur, okc := st.heap[k]
		if !okc {
			cur = fv.heapInit(k, Val{})
			if cur.S == "" {
				continue
			}
		}
		es := strings.TrimSuffix(strings.TrimPrefix(cur.S, "(Array Int "), ")")
		t := cur.T
		seen := map[string]bool{}
		for _, r := range refs {
			if seen[r] {
				continue
			}
			seen[r] = true
			nv := fv.sess.fresh("hv", es)
			if hv, okh := fv.w.heapSorts[k]; okh && hv.Go != nil {
				if inv := fv.typeInv(nv, hv.Go, 1); inv != "true" {
					fv.sess.fact(inv)
				}
				fv.liveRef(st, Val{T: nv, S: es, Go: hv.Go})
			}
			t = fmt.Sprintf("(store %s %s %s)", t, r, nv)
		}
		st.heap[k] = fv.name("H", Val{T: t, S: cur.S, Go: cur.Go})
	}
}

func (fv *FV) havocHeapKey(st *State, k string) {
	if k == "$alloc" {
		fv.advanceAlloc(st)
		return
	}
	cur, ok := st.heap[k]
	if !ok {
		cur = fv.heapInit(k, Val{})
		if cur.S == "" {
			return
		}
	}
	n := fv.sess.fresh("H", cur.S)
	st.heap[k] = Val{T: n, S: cur.S, Go: cur.Go}
	if k == "chan.closed" {
		// a channel that exists and is closed stays closed, whatever happened in between
		fv.assume(st, fmt.Sprintf("(forall ((r!c Int)) (! (=> (and (<= r!c alloc0) (select %s r!c)) (select %s r!c)) :pattern ((select %s r!c))))", cur.T, n, n))
	}
	// type invariants for heap cells are asserted at reads
}

// loopCanary: the body of a loop that carries invariants must be reachable under
// the invariants, the loop condition and everything assumed before (an
// invariant that contradicts the havoc'd loop state would make every obligation
// inside the body vacuous).
func (fv *FV) loopCanary(body *State, ord int, ninv int) {
	if body == nil || ord <= 0 || ninv == 0 || fv.contract == nil || fv.pure > 0 || !fv.fn.top {
		return
	}
	base := fmt.Sprintf("%s#vacuity.loop%d", fv.fname, ord)
	fv.cnt[base]++
	if fv.cnt[base] > 1 {
		// the same loop reached again on another (unmerged) path: one canary is enough
		return
	}
	fv.obls = append(fv.obls, &Obl{Name: base, Func: fv.fname, Kind: "vacuity", Goal: not(body.pc),
		NDecls: len(fv.sess.decls), NFacts: len(fv.sess.facts), Props: fv.contract.Props, Text: "the loop body is reachable under its invariants (this query must not be unsat)"})
}

func (fv *FV) specEnvAt(st *State, pos token.Pos) *SpecEnv {
	return &SpecEnv{fv: fv, names: fv.specNames, cur: st, old: fv.oldState, pos: pos, pkg: fv.fn.pkg, tsub: fv.tsub}
}

func (fv *FV) execFor(st *State, s *ast.ForStmt, label string) *State {
	ord := fv.ordOf(s)
	top := fv.fn.top
	if s.Init != nil {
		st = fv.execStmt(st, s.Init, "")
	}
	invs, dec := fv.loopClauses(ord)
	fv.loopLets(st, ord, s.Body.Lbrace)
	// init
	for _, c := range invs {
		env := fv.specEnvAt(st, s.Body.Lbrace)
		g := fv.evalSpecBool(env, c.Expr)
		if c.Kind != "assume" {
			fv.oblige(st, fmt.Sprintf("loop%d.init", ord), c.Label, g, c.Text, s.Pos())
		}
	}
	ms := fv.modifies(s.Body)
	if s.Post != nil {
		fv.collectMods(s.Post, ms, 0)
	}
	if s.Cond != nil {
		fv.collectMods(s.Cond, ms, 0)
	}
	head := st.clone()
	fv.havocMods(head, ms, fmt.Sprintf("loop %d", ord))
	for _, c := range invs {
		env := fv.specEnvAt(head, s.Body.Lbrace)
		fv.assume(head, fv.evalSpecBool(env, c.Expr))
		if c.Kind == "assume" {
			fv.assumed[fmt.Sprintf("assumed without check at the head of loop %d of %s: %s", ord, fv.fname, c.Text)] = true
		}
	}
	var body, exit *State
	if s.Cond != nil {
		c := fv.eval(head, s.Cond)
		body, exit = fv.branch(head, c.T)
	} else {
		body, exit = head, nil
	}
	fv.loopCanary(body, ord, len(invs))
	var decBefore string
	if dec != nil {
		decBefore = fv.evalSpec(fv.specEnvAt(body, s.Body.Lbrace), dec.Expr).T
		decBefore = fv.name("dec", Val{T: decBefore, S: "Int"}).T
	}
	lc := &loopCtx{label: label}
	var backEdge func(bst *State)
	backEdge = func(bst *State) {
		if bst == nil {
			return
		}
		if len(bst.parts) > 1 && len(bst.parts) <= 6 {
			ps := bst.parts
			bst.parts = nil
			for _, p := range ps {
				p.parts = nil
				backEdge(p)
			}
			return
		}
		if s.Post != nil {
			bst = fv.execStmt(bst, s.Post, "")
			if bst == nil {
				return
			}
		}
		for _, c := range invs {
			env := fv.specEnvAt(bst, s.Body.Lbrace)
			g := fv.evalSpecBool(env, c.Expr)
			if c.Kind != "assume" {
				fv.oblige(bst, fmt.Sprintf("loop%d.keep", ord), c.Label, g, c.Text, s.Pos())
			}
		}
		if dec != nil {
			after := fv.evalSpec(fv.specEnvAt(bst, s.Body.Lbrace), dec.Expr).T
			fv.oblige(bst, fmt.Sprintf("loop%d.term", ord), "", fmt.Sprintf("(and (< %s %s) (>= %s 0))", after, decBefore, decBefore), dec.Text, s.Pos())
		}
	}
	lc.onContinue = backEdge
	fv.fn.loops = append(fv.fn.loops, lc)
	end := fv.execBlock(body, s.Body.List)
	fv.fn.loops = fv.fn.loops[:len(fv.fn.loops)-1]
	backEdge(end)
	_ = top
	outs := append([]*State{exit}, lc.breaks...)
	return fv.merge(outs)
}

func (fv *FV) execRange(st *State, s *ast.RangeStmt, label string) *State {
	ord := fv.ordOf(s)
	xt := fv.info().TypeOf(s.X)
	under := types.Unalias(xt).Underlying()
	if tp, ok := types.Unalias(xt).(*types.TypeParam); ok {
		if u := coreType(tp); u != nil {
			under = u
		}
	}
	if p, ok := under.(*types.Pointer); ok {
		if _, isArr := p.Elem().Underlying().(*types.Array); isArr {
			fv.unsupported("range over array pointer")
		}
	}
	switch under.(type) {
	case *types.Slice, *types.Array, *types.Basic:
	case *types.Map:
		return fv.execRangeMap(st, s, label, ord)
	default:
		fv.unsupported("range over %s", xt)
	}
	xv := fv.eval(st, s.X)
	var n string
	isInt := false
	isStr := false
	if b, ok := under.(*types.Basic); ok {
		if b.Info()&types.IsInteger != 0 {
			n = xv.T
			isInt = true
		} else if b.Info()&types.IsString != 0 {
			n = fmt.Sprintf("(strlen %s)", xv.T)
			isStr = true
		} else {
			fv.unsupported("range over %s", xt)
		}
	} else {
		n = fmt.Sprintf("(sq.len %s)", xv.T)
	}
	xv = fv.name("rng", xv)
	invs, dec := fv.loopClauses(ord)
	fv.loopLets(st, ord, s.Body.Lbrace)
	_ = dec
	// the loop counter: spec name idx<ord>, also bound to key var if present
	bindIter := func(bst *State, i string) {
		if fv.specNames != nil {
			fv.specNames[fmt.Sprintf("idx%d", ord)] = Val{T: i, S: "Int", Go: types.Typ[types.Int]}
		}
		if s.Key != nil {
			if id, ok := s.Key.(*ast.Ident); ok && id.Name != "_" {
				kv := Val{T: i, S: "Int", Go: types.Typ[types.Int]}
				if s.Tok == token.DEFINE {
					if obj := fv.info().Defs[id]; obj != nil {
						bst.vars[obj] = kv
					}
				} else {
					fv.assign(bst, s.Key, kv)
				}
			} else if !ok {
				fv.assign(bst, s.Key, Val{T: i, S: "Int", Go: types.Typ[types.Int]})
			}
		}
	}
	bindValue := func(bst *State, i string) {
		if s.Value == nil {
			return
		}
		if id, ok := s.Value.(*ast.Ident); ok && id.Name == "_" {
			return
		}
		var ev Val
		if isStr {
			ev = fv.freshVal("rune", types.Typ[types.Rune])
		} else {
			et := elemType(under)
			ev = fv.wellFormed(bst, Val{T: fmt.Sprintf("(select (sq.arr %s) %s)", xv.T, i), S: fv.sess.sortOf(et), Go: et})
		}
		if id, ok := s.Value.(*ast.Ident); ok && s.Tok == token.DEFINE {
			if obj := fv.info().Defs[id]; obj != nil {
				bst.vars[obj] = ev
			}
		} else {
			fv.assign(bst, s.Value, ev)
		}
	}
	_ = isInt
	// init: invariants with counter = 0
	st0 := st.clone()
	bindIter(st0, "0")
	for _, c := range invs {
		env := fv.specEnvAt(st0, s.Body.Lbrace)
		env.loopHead = true
		g := fv.evalSpecBool(env, c.Expr)
		if c.Kind != "assume" {
			fv.oblige(st0, fmt.Sprintf("loop%d.init", ord), c.Label, g, c.Text, s.Pos())
		}
	}
	ms := fv.modifies(s.Body)
	head := st.clone()
	fv.havocMods(head, ms, fmt.Sprintf("loop %d", ord))
	iv := fv.freshSort("i", "Int")
	fv.assume(head, fmt.Sprintf("(and (<= 0 %s) (<= %s %s))", iv.T, iv.T, n))
	bindIter(head, iv.T)
	for _, c := range invs {
		env := fv.specEnvAt(head, s.Body.Lbrace)
		env.loopHead = true
		fv.assume(head, fv.evalSpecBool(env, c.Expr))
		if c.Kind == "assume" {
			fv.assumed[fmt.Sprintf("assumed without check at the head of loop %d of %s: %s", ord, fv.fname, c.Text)] = true
		}
	}
	body, exit := fv.branch(head, fmt.Sprintf("(< %s %s)", iv.T, n))
	fv.loopCanary(body, ord, len(invs))
	bindValue(body, iv.T)
	fv.assume(exit, fmt.Sprintf("(= %s %s)", iv.T, n))
	lc := &loopCtx{label: label}
	var backEdge func(bst *State)
	backEdge = func(bst *State) {
		if bst == nil {
			return
		}
		if len(bst.parts) > 1 && len(bst.parts) <= 6 {
			ps := bst.parts
			bst.parts = nil
			for _, p := range ps {
				p.parts = nil
				backEdge(p)
			}
			return
		}
		next := fmt.Sprintf("(+ %s 1)", iv.T)
		bb := bst.clone()
		bindIter(bb, next)
		for _, c := range invs {
			env := fv.specEnvAt(bb, s.Body.Lbrace)
			env.loopHead = true
			g := fv.evalSpecBool(env, c.Expr)
			if c.Kind != "assume" {
				fv.oblige(bb, fmt.Sprintf("loop%d.keep", ord), c.Label, g, c.Text, s.Pos())
			}
		}
	}
	lc.onContinue = backEdge
	fv.fn.loops = append(fv.fn.loops, lc)
	end := fv.execBlock(body, s.Body.List)
	fv.fn.loops = fv.fn.loops[:len(fv.fn.loops)-1]
	backEdge(end)
	// at normal exit the counter equals n (visible to later spec as idx<ord>)
	if fv.specNames != nil {
		// keep idx bound to iv: exit has iv == n; breaks have iv < n
		fv.specNames[fmt.Sprintf("idx%d", ord)] = iv
	}
	outs := append([]*State{exit}, lc.breaks...)
	return fv.merge(outs)
}

func elemType(t types.Type) types.Type {
	switch tt := t.(type) {
	case *types.Slice:
		return tt.Elem()
	case *types.Array:
		return tt.Elem()
	case *types.Pointer:
		return elemType(tt.Elem().Underlying())
	}
	return nil
}

// execRangeMap: adversarial iteration order with a ghost visited set.
func (fv *FV) execRangeMap(st *State, s *ast.RangeStmt, label string, ord int) *State {
	xt := fv.info().TypeOf(s.X)
	mt := types.Unalias(xt).Underlying().(*types.Map)
	mv := fv.name("rngm", fv.eval(st, s.X))
	ks := fv.sess.sortOf(mt.Key())
	visSort := fmt.Sprintf("(Array %s Bool)", ks)
	invs, _ := fv.loopClauses(ord)
	fv.loopLets(st, ord, s.Body.Lbrace)
	emptyVis := fmt.Sprintf("((as const %s) false)", visSort)
	visName := fmt.Sprintf("visited%d", ord)
	bindVis := func(v string) {
		if fv.specNames != nil {
			fv.specNames[visName] = Val{T: v, S: visSort}
		}
	}
	bindVis(emptyVis)
	for _, c := range invs {
		env := fv.specEnvAt(st, s.Body.Lbrace)
		env.loopHead = true
		g := fv.evalSpecBool(env, c.Expr)
		if c.Kind != "assume" {
			fv.oblige(st, fmt.Sprintf("loop%d.init", ord), c.Label, g, c.Text, s.Pos())
		}
	}
	ms := fv.modifies(s.Body)
	head := st.clone()
	fv.havocMods(head, ms, fmt.Sprintf("loop %d", ord))
	vis := fv.freshSort("visited", visSort)
	// visited ⊆ dom
	fv.assume(head, fmt.Sprintf("(forall ((k!v %s)) (! (=> (select %s k!v) (select (mp.dom %s) k!v)) :pattern ((select %s k!v))))", ks, vis.T, mv.T, vis.T))
	bindVis(vis.T)
	for _, c := range invs {
		env := fv.specEnvAt(head, s.Body.Lbrace)
		env.loopHead = true
		fv.assume(head, fv.evalSpecBool(env, c.Expr))
		if c.Kind == "assume" {
			fv.assumed[fmt.Sprintf("assumed without check at the head of loop %d of %s: %s", ord, fv.fname, c.Text)] = true
		}
	}
	// body: pick k in dom \ visited
	more := fv.freshSort("more", "Bool")
	body, exit := fv.branch(head, more.T)
	fv.loopCanary(body, ord, len(invs))
	k := fv.freshVal("k", mt.Key())
	fv.assume(body, fmt.Sprintf("(and (select (mp.dom %s) %s) (not (select %s %s)))", mv.T, k.T, vis.T, k.T))
	fv.assume(exit, fmt.Sprintf("(forall ((k!v %s)) (! (=> (select (mp.dom %s) k!v) (select %s k!v)) :pattern ((select (mp.dom %s) k!v))))", ks, mv.T, vis.T, mv.T))
	if s.Key != nil {
		if id, ok := s.Key.(*ast.Ident); !ok || id.Name != "_" {
			if ok && s.Tok == token.DEFINE {
				if obj := fv.info().Defs[id]; obj != nil {
					body.vars[obj] = k
				}
			} else {
				fv.assign(body, s.Key, k)
			}
		}
	}
	if s.Value != nil {
		if id, ok := s.Value.(*ast.Ident); !ok || id.Name != "_" {
			ev := fv.wellFormed(body, Val{T: fmt.Sprintf("(select (mp.val %s) %s)", mv.T, k.T), S: fv.sess.sortOf(mt.Elem()), Go: mt.Elem()})
			if ok && s.Tok == token.DEFINE {
				if obj := fv.info().Defs[id]; obj != nil {
					body.vars[obj] = ev
				}
			} else {
				fv.assign(body, s.Value, ev)
			}
		}
	}
	if fv.specNames != nil {
		fv.specNames[fmt.Sprintf("key%d", ord)] = k
	}
	lc := &loopCtx{label: label}
	var backEdge func(bst *State)
	backEdge = func(bst *State) {
		if bst == nil {
			return
		}
		if len(bst.parts) > 1 && len(bst.parts) <= 6 {
			ps := bst.parts
			bst.parts = nil
			for _, p := range ps {
				p.parts = nil
				backEdge(p)
			}
			return
		}
		bindVis(fmt.Sprintf("(store %s %s true)", vis.T, k.T))
		for _, c := range invs {
			env := fv.specEnvAt(bst, s.Body.Lbrace)
			env.loopHead = true
			g := fv.evalSpecBool(env, c.Expr)
			if c.Kind != "assume" {
				fv.oblige(bst, fmt.Sprintf("loop%d.keep", ord), c.Label, g, c.Text, s.Pos())
			}
		}
		bindVis(vis.T)
	}
	lc.onContinue = backEdge
	fv.fn.loops = append(fv.fn.loops, lc)
	end := fv.execBlock(body, s.Body.List)
	fv.fn.loops = fv.fn.loops[:len(fv.fn.loops)-1]
	backEdge(end)
	outs := append([]*State{exit}, lc.breaks...)
	return fv.merge(outs)
}
