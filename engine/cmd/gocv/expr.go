package main

// Symbolic evaluation of Go expressions, lvalues, heap model.

import (
	"fmt"
	"go/ast"
	"go/constant"
	"go/token"
	"go/types"
	"strings"
)

// ---------- heap ----------

func fieldKey(owner *types.Named, f *types.Var) string {
	p := ""
	if owner.Obj().Pkg() != nil {
		p = owner.Obj().Pkg().Path()
	}
	return p + "." + owner.Obj().Name() + "." + f.Name()
}

// livenessFacts: facts stating that every reference reachable (through slices,
// maps and pointers, to a small depth) from the entry-heap value `term` of type
// t was allocated before entry (<= alloc0). binders are the quantified
// variables `term` mentions.
func (fv *FV) livenessFacts(term string, t types.Type, binders []string, depth int) []string {
	if depth > 2 || t == nil {
		return nil
	}
	q := func(body string) string {
		return fmt.Sprintf("(assert (forall (%s) (! %s :pattern (%s))))", strings.Join(binders, " "), body, term)
	}
	if n, ok := types.Unalias(t).(*types.Named); ok && n.Obj().Pkg() != nil && n.Obj().Pkg().Path() == "sync/atomic" && n.Obj().Name() == "Pointer" && fv.sess.sortOf(t) == "Int" {
		return []string{q(fmt.Sprintf("(<= %s alloc0)", term))}
	}
	switch u := types.Unalias(t).Underlying().(type) {
	case *types.Pointer:
		return []string{q(fmt.Sprintf("(<= %s alloc0)", term))}
	case *types.Slice:
		out := []string{q(fmt.Sprintf("(<= (sq.ref %s) alloc0)", term))}
		iv := fmt.Sprintf("i%d!h", depth)
		out = append(out, fv.livenessFacts(fmt.Sprintf("(select (sq.arr %s) %s)", term, iv), u.Elem(), append(append([]string{}, binders...), "("+iv+" Int)"), depth+1)...)
		return out
	case *types.Map:
		if !strings.HasPrefix(fv.sess.sortOf(t), "(GMap ") {
			return nil
		}
		out := []string{q(fmt.Sprintf("(<= (mp.ref %s) alloc0)", term))}
		kv := fmt.Sprintf("k%d!h", depth)
		ks := fv.sess.sortOf(u.Key())
		out = append(out, fv.livenessFacts(fmt.Sprintf("(select (mp.val %s) %s)", term, kv), u.Elem(), append(append([]string{}, binders...), "("+kv+" "+ks+")"), depth+1)...)
		return out
	}
	return nil
}

// heapInit returns (and registers) the entry-state array for a heap key.
func (fv *FV) heapInit(key string, hint Val) Val {
	if v, ok := fv.w.heapSorts[key]; ok {
		name := "H0_" + sanitize(key)
		sort := v.S
		if !fv.sess.declSet["heap:"+key] {
			fv.sess.decl("heap:"+key, fmt.Sprintf("(declare-const %s %s)", name, sort))
			// everything stored in the heap at entry was allocated before entry
			if v.Go != nil && strings.HasPrefix(sort, "(Array Int ") {
				for _, f := range fv.livenessFacts(fmt.Sprintf("(select %s r!h)", name), v.Go, []string{"(r!h Int)"}, 0) {
					fv.sess.decls = append(fv.sess.decls, f)
				}
			}
		}
		return Val{T: name, S: sort, Go: v.Go}
	}
	if hint.S != "" {
		fv.w.heapSorts[key] = hint
		return fv.heapInit(key, hint)
	}
	return Val{}
}

func (fv *FV) heapGet(st *State, key string, elemSort string, goT types.Type) Val {
	if v, ok := st.heap[key]; ok {
		return v
	}
	sort := elemSort
	if !strings.HasPrefix(key, "G:") {
		sort = fmt.Sprintf("(Array Int %s)", elemSort)
	}
	v := fv.heapInit(key, Val{S: sort, Go: goT})
	st.heap[key] = v
	if fv.oldState != nil {
		if _, ok := fv.oldState.heap[key]; !ok {
			fv.oldState.heap[key] = v
		}
	}
	return v
}

// guardCheck: lock-discipline obligation (C12) for an access to a guarded field
// in a function whose contract opts in (props C12): a write needs the write
// lock, a read the read or write lock - unless the object is fresh (not yet
// shared) or, for owner-read fields, the function runs on the owner goroutine.
func (fv *FV) guardCheck(st *State, ref string, owner *types.Named, f *types.Var, write bool) {
	if fv.pure > 0 || fv.contract == nil || fv.contract.IsLemma || !hasProp(fv.contract, "C12") {
		return
	}
	g := fv.w.guards[fieldKey(owner, f)]
	if g == nil {
		return
	}
	stt, _ := owner.Underlying().(*types.Struct)
	if stt == nil {
		return
	}
	var mf *types.Var
	for i := 0; i < stt.NumFields(); i++ {
		if stt.Field(i).Name() == g.Mutex {
			mf = stt.Field(i)
		}
	}
	if mf == nil {
		fv.unsupported("guard: no mutex field %s in %s", g.Mutex, owner.Obj().Name())
	}
	mx := fv.heapGet(st, fieldKey(owner, mf), "Int", mf.Type())
	held := fmt.Sprintf("(select %s %s)", mx.T, ref)
	fresh := fmt.Sprintf("(> %s alloc0)", ref)
	if write {
		fv.oblige(st, "perm.w", f.Name(), fmt.Sprintf("(or %s (= %s 2))", fresh, held), "write to "+owner.Obj().Name()+"."+f.Name()+" holds "+g.Mutex+" for writing", token.NoPos)
		fv.obls[len(fv.obls)-1].Props = []string{"C12"}
		return
	}
	if g.OwnerReads {
		// the queue-owner goroutine is the only writer: it may read without the lock
		ow := fv.ghostGet(st, "owner")
		fv.oblige(st, "perm.r", f.Name(), fmt.Sprintf("(or %s (>= %s 1) (= %s 1))", fresh, held, ow.T), "read of "+owner.Obj().Name()+"."+f.Name()+" holds "+g.Mutex+" or runs on the queue-owner goroutine", token.NoPos)
		fv.obls[len(fv.obls)-1].Props = []string{"C12"}
		return
	}
	fv.oblige(st, "perm.r", f.Name(), fmt.Sprintf("(or %s (>= %s 1))", fresh, held), "read of "+owner.Obj().Name()+"."+f.Name()+" holds "+g.Mutex, token.NoPos)
	fv.obls[len(fv.obls)-1].Props = []string{"C12"}
}

func (fv *FV) readField(st *State, ref string, owner *types.Named, f *types.Var) Val {
	fv.guardCheck(st, ref, owner, f, false)
	es := fv.sess.sortOf(f.Type())
	h := fv.heapGet(st, fieldKey(owner, f), es, f.Type())
	v := Val{T: fmt.Sprintf("(select %s %s)", h.T, ref), S: es, Go: f.Type()}
	if fv.pure == 0 {
		if inv := fv.typeInv(v.T, f.Type(), 1); inv != "true" {
			fv.sess.fact(inv)
		}
		fv.liveRef(st, v)
	}
	return v
}

func (fv *FV) writeField(st *State, ref string, owner *types.Named, f *types.Var, v Val) {
	fv.guardCheck(st, ref, owner, f, true)
	es := fv.sess.sortOf(f.Type())
	key := fieldKey(owner, f)
	h := fv.heapGet(st, key, es, f.Type())
	nv := Val{T: fmt.Sprintf("(store %s %s %s)", h.T, ref, v.T), S: h.S, Go: h.Go}
	st.heap[key] = fv.name("H", nv)
	fv.writtenHeap[key] = true
}

func namedOf(t types.Type) *types.Named {
	t = types.Unalias(t)
	if p, ok := t.(*types.Pointer); ok {
		t = types.Unalias(p.Elem())
	}
	n, _ := t.(*types.Named)
	return n
}

func structOf(t types.Type) *types.Struct {
	t = types.Unalias(t)
	if p, ok := t.Underlying().(*types.Pointer); ok {
		t = p.Elem()
	}
	s, _ := types.Unalias(t).Underlying().(*types.Struct)
	return s
}

func isPointer(t types.Type) bool {
	_, ok := types.Unalias(t).Underlying().(*types.Pointer)
	return ok
}

// allFieldKeys lists heap keys of all fields of a struct type.
func (fv *FV) allFieldKeys(t types.Type) []string {
	n := namedOf(t)
	if n == nil {
		return nil
	}
	st, ok := n.Underlying().(*types.Struct)
	if !ok {
		return nil
	}
	var out []string
	for i := 0; i < st.NumFields(); i++ {
		out = append(out, fieldKey(n, st.Field(i)))
	}
	return out
}

// selectionHeapKeys: heap keys read along a selection path that goes through
// pointers (the last one is the one written by an assignment).
func (fv *FV) selectionHeapKeys(sel *types.Selection) []string {
	var keys []string
	t := sel.Recv()
	for _, idx := range sel.Index() {
		ptr := isPointer(t)
		st := structOf(t)
		if st == nil {
			return keys
		}
		f := st.Field(idx)
		if ptr {
			if n := namedOf(t); n != nil {
				keys = append(keys, fieldKey(n, f))
			}
		} else if len(keys) > 0 {
			// value field nested inside a heap object: the write goes to the
			// enclosing heap key
		}
		t = f.Type()
	}
	return keys
}

// ---------- zero values ----------

func (fv *FV) zero(t types.Type) Val {
	s := fv.sess.sortOf(t)
	v := Val{S: s, Go: t}
	switch {
	case s == "Int":
		v.T = "0"
	case s == "Bool":
		v.T = "false"
	case s == "Str":
		v.T = "str!empty"
	case s == "Real":
		v.T = "0.0"
	case s == "Any":
		v.T = "nil!Any"
	case strings.HasPrefix(s, "(GSeq "):
		if arr, ok := types.Unalias(t).Underlying().(*types.Array); ok {
			ez := fv.zero(arr.Elem())
			v.T = fmt.Sprintf("((as mksq %s) %s %d 1)", s, fv.constArr("Int", ez.S, ez.T), arr.Len())
		} else {
			c := "seqnil_" + sanitize(s)
			fv.sess.decl("c:"+c, fmt.Sprintf("(declare-const %s %s)\n(assert (and (= (sq.len %s) 0) (= (sq.ref %s) 0)))", c, s, c, c))
			v.T = c
		}
	case strings.HasPrefix(s, "(GMap "):
		k, _ := mapSorts(s)
		c := "mapnil_" + sanitize(s)
		fv.sess.decl("c:"+c, fmt.Sprintf("(declare-const %s %s)\n(assert (and (= (mp.ref %s) 0) (= (mp.dom %s) ((as const (Array %s Bool)) false))))", c, s, c, c, k))
		v.T = c
	case s == "Unit":
		v.T = "unit"
	case strings.HasPrefix(s, "St_"):
		stt := fv.sess.structs[s]
		if stt == nil || stt.NumFields() == 0 {
			v.T = "mk_" + s
		} else {
			var parts []string
			for i := 0; i < stt.NumFields(); i++ {
				parts = append(parts, fv.zero(stt.Field(i).Type()).T)
			}
			v.T = fmt.Sprintf("(mk_%s %s)", s, strings.Join(parts, " "))
		}
	case strings.HasPrefix(s, "TP_"):
		c := "zero_" + s
		fv.sess.decl("c:"+c, fmt.Sprintf("(declare-const %s %s)", c, s))
		v.T = c
	default:
		fv.unsupported("zero value of sort %s", s)
	}
	return v
}

// ---------- lvalues / assignment ----------

func (fv *FV) assign(st *State, lhs ast.Expr, v Val) {
	switch x := lhs.(type) {
	case *ast.ParenExpr:
		fv.assign(st, x.X, v)
	case *ast.Ident:
		if x.Name == "_" {
			return
		}
		obj := fv.info().Defs[x]
		if obj == nil {
			obj = fv.info().Uses[x]
		}
		if obj == nil {
			fv.unsupported("assign to unknown ident %s", x.Name)
		}
		if vr, ok := obj.(*types.Var); ok && vr.Pkg() != nil && vr.Parent() == vr.Pkg().Scope() {
			key := globalKey(vr)
			fv.heapGet(st, key, fv.sess.sortOf(vr.Type()), vr.Type())
			st.heap[key] = Val{T: v.T, S: v.S, Go: vr.Type()}
			fv.writtenHeap[key] = true
			return
		}
		v = fv.convertTo(st, v, obj.Type())
		if v.Clos == nil {
			v = fv.name(x.Name, v)
		}
		v.Go = obj.Type()
		st.vars[obj] = v
	case *ast.SelectorExpr:
		sel := fv.info().Selections[x]
		if sel == nil {
			// qualified identifier: package-level variable
			if obj, ok := fv.info().Uses[x.Sel].(*types.Var); ok {
				key := globalKey(obj)
				fv.heapGet(st, key, fv.sess.sortOf(obj.Type()), obj.Type())
				st.heap[key] = Val{T: v.T, S: v.S, Go: obj.Type()}
				fv.writtenHeap[key] = true
				return
			}
			fv.unsupported("assign to selector %s", fv.exprText(x))
		}
		fv.assignSel(st, x, sel, v)
	case *ast.IndexExpr:
		xt := fv.info().TypeOf(x.X)
		cont := fv.eval(st, x.X)
		idx := fv.eval(st, x.Index)
		switch u := underCore(xt).(type) {
		case *types.Slice, *types.Array:
			fv.safe(st, "idx", x, fmt.Sprintf("(and (<= 0 %s) (< %s (sq.len %s)))", idx.T, idx.T, cont.T))
			v = fv.convertTo(st, v, elemType(u))
			nv := Val{T: fmt.Sprintf("((as mksq %s) (store (sq.arr %s) %s %s) (sq.len %s) (sq.ref %s))", cont.S, cont.T, idx.T, v.T, cont.T, cont.T), S: cont.S, Go: xt}
			fv.assign(st, x.X, nv)
		case *types.Map:
			fv.safe(st, "mapw", x, fmt.Sprintf("(not (= (mp.ref %s) 0))", cont.T))
			v = fv.convertTo(st, v, u.Elem())
			idx = fv.convertTo(st, idx, u.Key())
			nv := Val{T: fmt.Sprintf("((as mkmp %s) (store (mp.val %s) %s %s) (store (mp.dom %s) %s true) (mp.ref %s))", cont.S, cont.T, idx.T, v.T, cont.T, idx.T, cont.T), S: cont.S, Go: xt}
			fv.assign(st, x.X, nv)
		case *types.Pointer:
			fv.unsupported("index through array pointer")
		default:
			fv.unsupported("index assign on %s", xt)
		}
	case *ast.StarExpr:
		p := fv.eval(st, x.X)
		pt := fv.info().TypeOf(x.X)
		pe := types.Unalias(pt).Underlying().(*types.Pointer).Elem()
		fv.safe(st, "nil", x, fmt.Sprintf("(not (= %s 0))", p.T))
		if n := namedOf(pe); n != nil {
			if stt, ok := n.Underlying().(*types.Struct); ok {
				sname := fv.sess.sortOf(pe)
				for i := 0; i < stt.NumFields(); i++ {
					f := stt.Field(i)
					fv.writeField(st, p.T, n, f, Val{T: fmt.Sprintf("(%s.%s %s)", sname, sanitize(f.Name()), v.T), S: fv.sess.sortOf(f.Type()), Go: f.Type()})
				}
				return
			}
		}
		key := "P:" + fv.sess.sortOf(pe)
		h := fv.heapGet(st, key, fv.sess.sortOf(pe), pe)
		st.heap[key] = fv.name("H", Val{T: fmt.Sprintf("(store %s %s %s)", h.T, p.T, v.T), S: h.S})
		fv.writtenHeap[key] = true
	default:
		fv.unsupported("assign to %T", lhs)
	}
}

func underCore(t types.Type) types.Type {
	t = types.Unalias(t)
	if tp, ok := t.(*types.TypeParam); ok {
		if sub, ok := tpSubst[tp]; ok {
			return underCore(sub)
		}
		if u := coreType(tp); u != nil {
			return u
		}
	}
	return t.Underlying()
}

// assignSel writes v to x (a field selection) following the selection path.
func (fv *FV) assignSel(st *State, x *ast.SelectorExpr, sel *types.Selection, v Val) {
	// Evaluate the path step by step keeping track of the last heap anchor.
	var path []selStep
	t := sel.Recv()
	for _, idx := range sel.Index() {
		stt := structOf(t)
		if stt == nil {
			fv.unsupported("selection through non-struct")
		}
		f := stt.Field(idx)
		path = append(path, selStep{t, f})
		t = f.Type()
	}
	// find last pointer hop
	last := -1
	for i, s := range path {
		if isPointer(s.ownerT) {
			last = i
		}
	}
	v = fv.convertTo(st, v, path[len(path)-1].f.Type())
	if last < 0 {
		// pure value path rooted at x.X: functional update, then assign to x.X
		base := fv.eval(st, x.X)
		nv := fv.updatePath(base, sel.Recv(), pathFields(path), v)
		fv.assign(st, x.X, nv)
		return
	}
	// evaluate prefix up to 'last' to get the reference
	cur := fv.eval(st, x.X)
	ct := sel.Recv()
	for i := 0; i < last; i++ {
		cur = fv.stepField(st, cur, ct, path[i].f, x)
		ct = path[i].f.Type()
	}
	ref := cur.T
	fv.safe(st, "nil", x, fmt.Sprintf("(not (= %s 0))", ref))
	owner := namedOf(path[last].ownerT)
	if owner == nil {
		fv.unsupported("field write through unnamed struct pointer")
	}
	if last == len(path)-1 {
		fv.writeField(st, ref, owner, path[last].f, v)
		return
	}
	// nested value fields inside heap field
	curField := fv.readField(st, ref, owner, path[last].f)
	var rest []*types.Var
	for _, s := range path[last+1:] {
		rest = append(rest, s.f)
	}
	nv := fv.updatePath(curField, path[last].f.Type(), rest, v)
	fv.writeField(st, ref, owner, path[last].f, nv)
}

type selStep struct {
	ownerT types.Type
	f      *types.Var
}

func pathFields(p []selStep) []*types.Var {
	var out []*types.Var
	for _, s := range p {
		out = append(out, s.f)
	}
	return out
}

// updatePath: functional update of nested struct value.
func (fv *FV) updatePath(base Val, baseT types.Type, fields []*types.Var, v Val) Val {
	if len(fields) == 0 {
		return v
	}
	sname := fv.sess.sortOf(baseT)
	stt := structOf(baseT)
	var parts []string
	for i := 0; i < stt.NumFields(); i++ {
		f := stt.Field(i)
		acc := fmt.Sprintf("(%s.%s %s)", sname, sanitize(f.Name()), base.T)
		if f == fields[0] {
			inner := fv.updatePath(Val{T: acc, S: fv.sess.sortOf(f.Type()), Go: f.Type()}, f.Type(), fields[1:], v)
			parts = append(parts, inner.T)
		} else {
			parts = append(parts, acc)
		}
	}
	return Val{T: fmt.Sprintf("(mk_%s %s)", sname, strings.Join(parts, " ")), S: sname, Go: baseT}
}

// stepField reads field f of value cur of type ct (pointer or struct value).
func (fv *FV) stepField(st *State, cur Val, ct types.Type, f *types.Var, at ast.Node) Val {
	if isPointer(ct) {
		owner := namedOf(ct)
		if owner == nil {
			fv.unsupported("field read through unnamed struct pointer")
		}
		if at != nil {
			fv.safe(st, "nil", at, fmt.Sprintf("(not (= %s 0))", cur.T))
		}
		return fv.readField(st, cur.T, owner, f)
	}
	sname := fv.sess.sortOf(ct)
	return Val{T: fmt.Sprintf("(%s.%s %s)", sname, sanitize(f.Name()), cur.T), S: fv.sess.sortOf(f.Type()), Go: f.Type()}
}

// ---------- conversions ----------

func (fv *FV) convertTo(st *State, v Val, t types.Type) Val {
	if t == nil || v.Clos != nil {
		return v
	}
	ts := fv.sess.sortOf(t)
	if v.S == ts {
		v.Go = t
		return v
	}
	if ts == "Any" {
		// boxing into interface
		if v.T == "nil!Any" {
			return v
		}
		fn := "box_" + sanitize(v.S)
		// a boxed concrete value is never the nil interface (even a nil pointer
		// makes a non-nil interface value), and boxing is injective
		fv.sess.decl("fn:"+fn, fmt.Sprintf("(declare-fun %s (%s) Any)\n(declare-fun un%s (Any) %s)\n"+
			"(assert (forall ((x %s)) (! (and (not (= (%s x) nil!Any)) (= (un%s (%s x)) x)) :pattern ((%s x)))))",
			fn, v.S, fn, v.S, v.S, fn, fn, fn, fn))
		return Val{T: fmt.Sprintf("(%s %s)", fn, v.T), S: "Any", Go: t}
	}
	if v.S == "Any" && v.T == "nil!Any" {
		return fv.zero(t)
	}
	if v.S == "Int" && ts == "Real" {
		return Val{T: fmt.Sprintf("(to_real %s)", v.T), S: "Real", Go: t}
	}
	if v.S == "Real" && ts == "Int" {
		return Val{T: fmt.Sprintf("(to_int %s)", v.T), S: "Int", Go: t}
	}
	if v.S == "Any" {
		fn := "unbox_" + sanitize(ts)
		fv.sess.decl("fn:"+fn, fmt.Sprintf("(declare-fun %s (Any) %s)", fn, ts))
		return Val{T: fmt.Sprintf("(%s %s)", fn, v.T), S: ts, Go: t}
	}
	fv.unsupported("convert %s to %s", v.S, ts)
	return v
}

// ---------- arithmetic ----------

func (fv *FV) wrap(term string, t types.Type) string {
	if m := uintMod(t); m != "" {
		return fmt.Sprintf("(mod %s %s)", term, m)
	}
	return term
}

func (fv *FV) arith(st *State, op token.Token, a, b Val, t types.Type, at ast.Node) Val {
	sort := a.S
	if sort == "Str" {
		if op == token.ADD {
			return Val{T: fmt.Sprintf("(strcat %s %s)", a.T, b.T), S: "Str", Go: t}
		}
		fv.unsupported("string op %v", op)
	}
	if sort == "Real" || b.S == "Real" {
		a = fv.convertTo(st, a, types.Typ[types.Float64])
		b = fv.convertTo(st, b, types.Typ[types.Float64])
		var o string
		switch op {
		case token.ADD:
			o = "+"
		case token.SUB:
			o = "-"
		case token.MUL:
			o = "*"
		case token.QUO:
			o = "/"
		default:
			fv.unsupported("float op %v", op)
		}
		return Val{T: fmt.Sprintf("(%s %s %s)", o, a.T, b.T), S: "Real", Go: t}
	}
	var term string
	switch op {
	case token.ADD:
		term = fv.wrap(fmt.Sprintf("(+ %s %s)", a.T, b.T), t)
	case token.SUB:
		term = fv.wrap(fmt.Sprintf("(- %s %s)", a.T, b.T), t)
	case token.MUL:
		term = fv.wrap(fmt.Sprintf("(* %s %s)", a.T, b.T), t)
	case token.QUO:
		fv.safe(st, "div", at, fmt.Sprintf("(not (= %s 0))", b.T))
		if uintMod(t) != "" {
			term = fmt.Sprintf("(div %s %s)", a.T, b.T)
		} else {
			// Go truncates toward zero
			term = fmt.Sprintf("(ite (>= %s 0) (div %s %s) (- (div (- %s) %s)))", a.T, a.T, b.T, a.T, b.T)
		}
	case token.REM:
		fv.safe(st, "div", at, fmt.Sprintf("(not (= %s 0))", b.T))
		if uintMod(t) != "" {
			term = fmt.Sprintf("(mod %s %s)", a.T, b.T)
		} else {
			term = fmt.Sprintf("(ite (>= %s 0) (mod %s %s) (- (mod (- %s) %s)))", a.T, a.T, b.T, a.T, b.T)
		}
	case token.SHL, token.SHR, token.AND, token.OR, token.XOR, token.AND_NOT:
		// bit operations: uninterpreted, except shifts by constants
		if op == token.SHL || op == token.SHR {
			if n, ok := smallConst(b.T); ok {
				p := pow2(n)
				if op == token.SHL {
					term = fv.wrap(fmt.Sprintf("(* %s %s)", a.T, p), t)
				} else {
					term = fmt.Sprintf("(div %s %s)", a.T, p)
				}
				break
			}
		}
		fn := "bitop_" + sanitize(op.String())
		fv.sess.decl("fn:"+fn, fmt.Sprintf("(declare-fun %s (Int Int) Int)", fn))
		term = fmt.Sprintf("(%s %s %s)", fn, a.T, b.T)
		fv.note("bit operation %s uninterpreted", op)
		v := Val{T: term, S: "Int", Go: t}
		if fv.pure == 0 {
			if inv := fv.typeInv(term, t, 0); inv != "true" {
				fv.sess.fact(inv)
			}
		}
		return v
	default:
		fv.unsupported("binary op %v", op)
	}
	return Val{T: term, S: "Int", Go: t}
}

func smallConst(t string) (int, bool) {
	var n int
	if _, err := fmt.Sscanf(t, "%d", &n); err == nil && fmt.Sprint(n) == t && n >= 0 && n < 64 {
		return n, true
	}
	return 0, false
}

func pow2(n int) string {
	v := constant.Shift(constant.MakeInt64(1), token.SHL, uint(n))
	return v.ExactString()
}

func (fv *FV) eqVals(a, b Val) string {
	if a.S != b.S {
		if a.T == "nil!Any" {
			return fv.isNil(b)
		}
		if b.T == "nil!Any" {
			return fv.isNil(a)
		}
		if a.S == "Any" || b.S == "Any" {
			// compare boxed
			aa := fv.convertTo(nil, a, types.NewInterfaceType(nil, nil))
			bb := fv.convertTo(nil, b, types.NewInterfaceType(nil, nil))
			return fmt.Sprintf("(= %s %s)", aa.T, bb.T)
		}
		fv.unsupported("comparison of %s and %s", a.S, b.S)
	}
	return fmt.Sprintf("(= %s %s)", a.T, b.T)
}

func (fv *FV) isNil(v Val) string {
	switch {
	case strings.HasPrefix(v.S, "(GSeq "):
		return fmt.Sprintf("(= (sq.ref %s) 0)", v.T)
	case strings.HasPrefix(v.S, "(GMap "):
		return fmt.Sprintf("(= (mp.ref %s) 0)", v.T)
	case v.S == "Int":
		return fmt.Sprintf("(= %s 0)", v.T)
	case v.S == "Any":
		return fmt.Sprintf("(= %s nil!Any)", v.T)
	}
	if v.Clos != nil {
		return "false"
	}
	fv.unsupported("nil comparison on sort %s", v.S)
	return ""
}

// ---------- expressions ----------

func (fv *FV) evalMulti(st *State, e ast.Expr) []Val {
	switch x := e.(type) {
	case *ast.ParenExpr:
		return fv.evalMulti(st, x.X)
	case *ast.CallExpr:
		return fv.evalCall(st, x)
	case *ast.IndexExpr:
		// v, ok := m[k]
		xt := fv.info().TypeOf(x.X)
		if mt, ok := underCore(xt).(*types.Map); ok {
			m := fv.eval(st, x.X)
			k := fv.convertTo(st, fv.eval(st, x.Index), mt.Key())
			has := fmt.Sprintf("(select (mp.dom %s) %s)", m.T, k.T)
			z := fv.zero(mt.Elem())
			val := Val{T: ite(has, fmt.Sprintf("(select (mp.val %s) %s)", m.T, k.T), z.T), S: z.S, Go: mt.Elem()}
			return []Val{val, {T: has, S: "Bool", Go: types.Typ[types.Bool]}}
		}
	case *ast.TypeAssertExpr:
		fv.eval(st, x.X)
		t := fv.info().TypeOf(x.Type)
		fv.note("type assertion at %s: result havoc'd", fv.posStr(x.Pos()))
		ok := fv.freshSort("ok", "Bool")
		ok.Go = types.Typ[types.Bool]
		return []Val{fv.freshVal("ta", t), ok}
	case *ast.UnaryExpr:
		if x.Op == token.ARROW {
			fv.eval(st, x.X)
			t := fv.info().TypeOf(x)
			if tup, ok := t.(*types.Tuple); ok {
				t = tup.At(0).Type()
			}
			ok := fv.freshSort("ok", "Bool")
			ok.Go = types.Typ[types.Bool]
			return []Val{fv.freshVal("recv", t), ok}
		}
	}
	return []Val{fv.eval(st, e)}
}

func (fv *FV) eval(st *State, e ast.Expr) Val {
	info := fv.info()
	// constants first
	if tv, ok := info.Types[e]; ok && tv.Value != nil {
		return fv.constVal(tv.Value, tv.Type)
	}
	switch x := e.(type) {
	case *ast.ParenExpr:
		return fv.eval(st, x.X)
	case *ast.BasicLit:
		tv := info.Types[e]
		return fv.constVal(tv.Value, tv.Type)
	case *ast.Ident:
		return fv.evalIdent(st, x)
	case *ast.SelectorExpr:
		return fv.evalSelector(st, x)
	case *ast.CallExpr:
		vals := fv.evalCall(st, x)
		if len(vals) == 0 {
			return Val{T: "unit!", S: "Void"}
		}
		return vals[0]
	case *ast.UnaryExpr:
		return fv.evalUnary(st, x)
	case *ast.BinaryExpr:
		return fv.evalBinary(st, x)
	case *ast.IndexExpr:
		return fv.evalIndex(st, x)
	case *ast.SliceExpr:
		return fv.evalSliceExpr(st, x)
	case *ast.StarExpr:
		p := fv.eval(st, x.X)
		pt := info.TypeOf(x.X)
		pe := types.Unalias(pt).Underlying().(*types.Pointer).Elem()
		fv.safe(st, "nil", x, fmt.Sprintf("(not (= %s 0))", p.T))
		return fv.derefStruct(st, p.T, pe)
	case *ast.CompositeLit:
		return fv.evalCompositeLit(st, x)
	case *ast.FuncLit:
		return Val{T: "closure!", S: "Any", Go: info.TypeOf(x), Clos: &Closure{Lit: x, Pkg: fv.fn.pkg}}
	case *ast.TypeAssertExpr:
		fv.eval(st, x.X)
		fv.note("type assertion at %s: result havoc'd (panic on failure not modelled)", fv.posStr(x.Pos()))
		return fv.freshVal("ta", info.TypeOf(x))
	case *ast.KeyValueExpr:
		fv.unsupported("key-value outside literal")
	case *ast.IndexListExpr:
		// generic instantiation f[T1,T2]
		return fv.eval(st, x.X)
	}
	fv.unsupported("expression %T", e)
	return Val{}
}

func (fv *FV) derefStruct(st *State, ref string, pe types.Type) Val {
	if n := namedOf(pe); n != nil {
		if stt, ok := n.Underlying().(*types.Struct); ok {
			if obj := n.Obj(); obj.Pkg() != nil && (obj.Pkg().Path() == "sync/atomic" || obj.Pkg().Path() == "sync") {
				key := "P:" + fv.sess.sortOf(pe)
				h := fv.heapGet(st, key, fv.sess.sortOf(pe), pe)
				return Val{T: fmt.Sprintf("(select %s %s)", h.T, ref), S: fv.sess.sortOf(pe), Go: pe}
			}
			sname := fv.sess.sortOf(pe)
			if stt.NumFields() == 0 {
				return Val{T: "mk_" + sname, S: sname, Go: pe}
			}
			var parts []string
			for i := 0; i < stt.NumFields(); i++ {
				parts = append(parts, fv.readField(st, ref, n, stt.Field(i)).T)
			}
			return fv.name("deref", Val{T: fmt.Sprintf("(mk_%s %s)", sname, strings.Join(parts, " ")), S: sname, Go: pe})
		}
	}
	key := "P:" + fv.sess.sortOf(pe)
	h := fv.heapGet(st, key, fv.sess.sortOf(pe), pe)
	return Val{T: fmt.Sprintf("(select %s %s)", h.T, ref), S: fv.sess.sortOf(pe), Go: pe}
}

func (fv *FV) constVal(c constant.Value, t types.Type) Val {
	switch c.Kind() {
	case constant.Bool:
		if constant.BoolVal(c) {
			return Val{T: "true", S: "Bool", Go: t}
		}
		return Val{T: "false", S: "Bool", Go: t}
	case constant.Int:
		s := fv.sess.sortOf(t)
		if s == "Real" {
			return Val{T: intLit(c.ExactString()) + ".0", S: "Real", Go: t}
		}
		return Val{T: intLit(c.ExactString()), S: "Int", Go: t}
	case constant.String:
		return Val{T: fv.sess.strLit(constant.StringVal(c)), S: "Str", Go: t}
	case constant.Float:
		f, _ := constant.Float64Val(c)
		if fv.sess.sortOf(t) == "Int" {
			return Val{T: fmt.Sprintf("%d", int64(f)), S: "Int", Go: t}
		}
		return Val{T: fmt.Sprintf("%f", f), S: "Real", Go: t}
	}
	fv.unsupported("constant kind %v", c.Kind())
	return Val{}
}

func (fv *FV) evalIdent(st *State, x *ast.Ident) Val {
	info := fv.info()
	if x.Name == "nil" {
		if _, ok := info.Uses[x].(*types.Nil); ok {
			t := info.TypeOf(x)
			if t != nil {
				if b, ok := t.(*types.Basic); !ok || b.Kind() != types.UntypedNil {
					return fv.zero(t)
				}
			}
			return Val{T: "nil!Any", S: "Any"}
		}
	}
	obj := info.Uses[x]
	if obj == nil {
		obj = info.Defs[x]
	}
	switch o := obj.(type) {
	case *types.Var:
		if v, ok := st.vars[o]; ok {
			return v
		}
		if o.Pkg() != nil && o.Parent() == o.Pkg().Scope() {
			return fv.readGlobal(st, o)
		}
		fv.unsupported("variable %s has no value (captured from an enclosing function?)", x.Name)
	case *types.Const:
		return fv.constVal(o.Val(), o.Type())
	case *types.Func:
		if d := fv.w.declOf(o); d != nil {
			return Val{T: "func!", S: "Any", Go: o.Type(), Clos: &Closure{Decl: d.decl, Pkg: d.pkg}}
		}
		return Val{T: "nil!Any", S: "Any", Go: o.Type()}
	case *types.Nil:
		return Val{T: "nil!Any", S: "Any"}
	}
	fv.unsupported("identifier %s (%T)", x.Name, obj)
	return Val{}
}

func (fv *FV) readGlobal(st *State, o *types.Var) Val {
	key := globalKey(o)
	s := fv.sess.sortOf(o.Type())
	h := fv.heapGet(st, key, s, o.Type())
	v := Val{T: h.T, S: s, Go: o.Type()}
	if fv.pure == 0 {
		if inv := fv.typeInv(v.T, o.Type(), 1); inv != "true" {
			fv.sess.fact(inv)
		}
	}
	return v
}

func (fv *FV) evalSelector(st *State, x *ast.SelectorExpr) Val {
	info := fv.info()
	sel := info.Selections[x]
	if sel == nil {
		// qualified identifier
		switch o := info.Uses[x.Sel].(type) {
		case *types.Var:
			return fv.readGlobal(st, o)
		case *types.Const:
			return fv.constVal(o.Val(), o.Type())
		case *types.Func:
			if d := fv.w.declOf(o); d != nil {
				return Val{T: "func!", S: "Any", Go: o.Type(), Clos: &Closure{Decl: d.decl, Pkg: d.pkg}}
			}
			return Val{T: "nil!Any", S: "Any", Go: o.Type()}
		}
		fv.unsupported("qualified identifier %s", fv.exprText(x))
	}
	switch sel.Kind() {
	case types.FieldVal:
		cur := fv.eval(st, x.X)
		ct := sel.Recv()
		stt0 := ct
		_ = stt0
		for _, idx := range sel.Index() {
			stt := structOf(ct)
			if stt == nil {
				fv.unsupported("field selection on %s", ct)
			}
			f := stt.Field(idx)
			cur = fv.stepField(st, cur, ct, f, x)
			ct = f.Type()
		}
		return cur
	case types.MethodVal:
		// method value (not called): closure over receiver
		fn := sel.Obj().(*types.Func)
		recv := fv.eval(st, x.X)
		if d := fv.w.declOf(fn); d != nil {
			return Val{T: "func!", S: "Any", Go: info.TypeOf(x), Clos: &Closure{Decl: d.decl, Recv: &recv, Pkg: d.pkg}}
		}
		return fv.freshVal("methodval", info.TypeOf(x))
	}
	fv.unsupported("selector kind")
	return Val{}
}

func (fv *FV) evalUnary(st *State, x *ast.UnaryExpr) Val {
	info := fv.info()
	switch x.Op {
	case token.NOT:
		v := fv.eval(st, x.X)
		return Val{T: not(v.T), S: "Bool", Go: info.TypeOf(x)}
	case token.SUB:
		v := fv.eval(st, x.X)
		t := info.TypeOf(x)
		if v.S == "Real" {
			return Val{T: fmt.Sprintf("(- %s)", v.T), S: "Real", Go: t}
		}
		return Val{T: fv.wrap(fmt.Sprintf("(- %s)", v.T), t), S: "Int", Go: t}
	case token.ADD:
		return fv.eval(st, x.X)
	case token.AND:
		return fv.evalAddrOf(st, x)
	case token.ARROW:
		fv.eval(st, x.X)
		fv.note("channel receive at %s: value havoc'd, blocking not modelled", fv.posStr(x.Pos()))
		return fv.freshVal("recv", info.TypeOf(x))
	case token.XOR:
		v := fv.eval(st, x.X)
		fv.sess.decl("fn:bitnot", "(declare-fun bitnot (Int) Int)")
		return Val{T: fmt.Sprintf("(bitnot %s)", v.T), S: "Int", Go: info.TypeOf(x)}
	}
	fv.unsupported("unary %v", x.Op)
	return Val{}
}

// evalAddrOf: &T{...} allocates; &x.f of struct value copies into a fresh
// object (assumption: read-only use); &local likewise.
func (fv *FV) evalAddrOf(st *State, x *ast.UnaryExpr) Val {
	info := fv.info()
	pt := info.TypeOf(x)
	pe := types.Unalias(pt).Underlying().(*types.Pointer).Elem()
	inner := x.X
	for {
		if p, ok := inner.(*ast.ParenExpr); ok {
			inner = p.X
			continue
		}
		break
	}
	if _, ok := inner.(*ast.CompositeLit); !ok {
		// &m.field where the field is a sync / atomic object: location pointer
		fv.note("address-of %s at %s: modelled as a fresh copy (writes through the pointer are not propagated back)", fv.exprText(inner), fv.posStr(x.Pos()))
	}
	v := fv.eval(st, inner)
	return fv.allocFrom(st, v, pe, pt)
}

func (fv *FV) allocFrom(st *State, v Val, pe, pt types.Type) Val {
	if fv.pure > 0 {
		fv.unsupported("allocation in pure context")
	}
	ref := Val{T: fv.bumpAlloc(st, "new"), S: "Int"}
	ref.Go = pt
	if n := namedOf(pe); n != nil {
		if stt, ok := n.Underlying().(*types.Struct); ok && !isSyncType(n) {
			sname := fv.sess.sortOf(pe)
			for i := 0; i < stt.NumFields(); i++ {
				f := stt.Field(i)
				fv.writeField(st, ref.T, n, f, Val{T: fmt.Sprintf("(%s.%s %s)", sname, sanitize(f.Name()), v.T), S: fv.sess.sortOf(f.Type()), Go: f.Type()})
			}
			return ref
		}
	}
	key := "P:" + fv.sess.sortOf(pe)
	h := fv.heapGet(st, key, fv.sess.sortOf(pe), pe)
	st.heap[key] = fv.name("H", Val{T: fmt.Sprintf("(store %s %s %s)", h.T, ref.T, v.T), S: h.S})
	return ref
}

func isSyncType(n *types.Named) bool {
	if n.Obj().Pkg() == nil {
		return false
	}
	p := n.Obj().Pkg().Path()
	return p == "sync" || p == "sync/atomic"
}

func (fv *FV) evalBinary(st *State, x *ast.BinaryExpr) Val {
	info := fv.info()
	t := info.TypeOf(x)
	switch x.Op {
	case token.LAND, token.LOR:
		a := fv.eval(st, x.X)
		// short circuit: evaluate rhs under the guard so that its safety
		// obligations are conditional
		g := a.T
		if x.Op == token.LOR {
			g = not(a.T)
		}
		sub := st.clone()
		sub.pc = fv.namePC(and(st.pc, g))
		subPC0 := sub.pc
		b := fv.eval(sub, x.Y)
		// propagate heap/vars effects of rhs (calls): merge
		if heapChanged(st, sub) || sub.pc != subPC0 {
			other := st.clone()
			other.pc = fv.namePC(and(st.pc, not(g)))
			m := fv.merge([]*State{sub, other})
			st.vars, st.heap = m.vars, m.heap
			if sub.pc != subPC0 {
				// the right operand contains an inlined call: execution continues
				// only on the paths on which that call returned
				st.pc = m.pc
			}
		}
		if x.Op == token.LAND {
			return Val{T: and(a.T, b.T), S: "Bool", Go: t}
		}
		return Val{T: or(a.T, b.T), S: "Bool", Go: t}
	}
	a := fv.eval(st, x.X)
	b := fv.eval(st, x.Y)
	switch x.Op {
	case token.EQL:
		return Val{T: fv.eqVals(a, b), S: "Bool", Go: t}
	case token.NEQ:
		return Val{T: not(fv.eqVals(a, b)), S: "Bool", Go: t}
	case token.LSS, token.LEQ, token.GTR, token.GEQ:
		op := map[token.Token]string{token.LSS: "<", token.LEQ: "<=", token.GTR: ">", token.GEQ: ">="}[x.Op]
		if a.S == "Str" {
			fv.sess.decl("fn:s.lt", "(declare-fun s.lt (Str Str) Bool)")
			fv.note("string ordering uninterpreted")
			switch x.Op {
			case token.LSS:
				return Val{T: fmt.Sprintf("(s.lt %s %s)", a.T, b.T), S: "Bool", Go: t}
			case token.GTR:
				return Val{T: fmt.Sprintf("(s.lt %s %s)", b.T, a.T), S: "Bool", Go: t}
			case token.LEQ:
				return Val{T: fmt.Sprintf("(not (s.lt %s %s))", b.T, a.T), S: "Bool", Go: t}
			default:
				return Val{T: fmt.Sprintf("(not (s.lt %s %s))", a.T, b.T), S: "Bool", Go: t}
			}
		}
		if a.S != b.S {
			a = fv.convertTo(st, a, types.Typ[types.Float64])
			b = fv.convertTo(st, b, types.Typ[types.Float64])
		}
		return Val{T: fmt.Sprintf("(%s %s %s)", op, a.T, b.T), S: "Bool", Go: t}
	}
	return fv.arith(st, x.Op, a, b, t, x)
}

func heapChanged(a, b *State) bool {
	if len(a.heap) != len(b.heap) {
		// new keys read only: check values of common keys
	}
	for k, v := range b.heap {
		if av, ok := a.heap[k]; ok && av.T != v.T {
			return true
		}
	}
	for k, v := range b.vars {
		if av, ok := a.vars[k]; ok && av.T != v.T {
			return true
		}
	}
	return false
}

func (fv *FV) evalIndex(st *State, x *ast.IndexExpr) Val {
	info := fv.info()
	// generic function instantiation
	if tv, ok := info.Types[x.X]; ok {
		if _, isSig := tv.Type.Underlying().(*types.Signature); isSig {
			return fv.eval(st, x.X)
		}
	}
	xt := info.TypeOf(x.X)
	cont := fv.eval(st, x.X)
	idx := fv.eval(st, x.Index)
	switch u := underCore(xt).(type) {
	case *types.Slice, *types.Array:
		fv.safe(st, "idx", x, fmt.Sprintf("(and (<= 0 %s) (< %s (sq.len %s)))", idx.T, idx.T, cont.T))
		et := elemType(u)
		return fv.wellFormed(st, Val{T: fmt.Sprintf("(select (sq.arr %s) %s)", cont.T, idx.T), S: fv.sess.sortOf(et), Go: et})
	case *types.Map:
		idx = fv.convertTo(st, idx, u.Key())
		z := fv.zero(u.Elem())
		has := fmt.Sprintf("(select (mp.dom %s) %s)", cont.T, idx.T)
		fv.wellFormed(st, Val{T: fmt.Sprintf("(select (mp.val %s) %s)", cont.T, idx.T), S: z.S, Go: u.Elem()})
		return Val{T: ite(has, fmt.Sprintf("(select (mp.val %s) %s)", cont.T, idx.T), z.T), S: z.S, Go: u.Elem()}
	case *types.Basic:
		// string indexing
		fv.safe(st, "idx", x, fmt.Sprintf("(and (<= 0 %s) (< %s (strlen %s)))", idx.T, idx.T, cont.T))
		fv.sess.decl("fn:strat", "(declare-fun s.at (Str Int) Int)")
		return Val{T: fmt.Sprintf("(s.at %s %s)", cont.T, idx.T), S: "Int", Go: info.TypeOf(x)}
	case *types.Pointer:
		fv.unsupported("index through pointer")
	}
	fv.unsupported("index on %s", xt)
	return Val{}
}

func (fv *FV) evalSliceExpr(st *State, x *ast.SliceExpr) Val {
	info := fv.info()
	xt := info.TypeOf(x.X)
	cont := fv.eval(st, x.X)
	lo := "0"
	if x.Low != nil {
		lo = fv.eval(st, x.Low).T
	}
	if b, ok := underCore(xt).(*types.Basic); ok && b.Info()&types.IsString != 0 {
		hi := fmt.Sprintf("(strlen %s)", cont.T)
		if x.High != nil {
			hi = fv.eval(st, x.High).T
		}
		fv.safe(st, "slice", x, fmt.Sprintf("(and (<= 0 %s) (<= %s %s) (<= %s (strlen %s)))", lo, lo, hi, hi, cont.T))
		fv.sess.decl("fn:substr", "(declare-fun s.sub (Str Int Int) Str)")
		fv.sess.decl("ax:substr", "(assert (forall ((s Str) (a Int) (b Int)) (! (=> (and (<= 0 a) (<= a b) (<= b (strlen s))) (= (strlen (s.sub s a b)) (- b a))) :pattern ((s.sub s a b)))))")
		return Val{T: fmt.Sprintf("(s.sub %s %s %s)", cont.T, lo, hi), S: "Str", Go: info.TypeOf(x)}
	}
	if _, ok := underCore(xt).(*types.Pointer); ok {
		fv.unsupported("slice of array pointer")
	}
	es := seqElemSort(cont.S)
	if es == "" {
		fv.unsupported("slice expr on %s", xt)
	}
	hi := fmt.Sprintf("(sq.len %s)", cont.T)
	if x.High != nil {
		hi = fv.eval(st, x.High).T
	}
	// capacity is not modelled: s[a:b] with b > len(s) but <= cap(s) is legal
	// Go; we demand b <= len(s), which is what the code base relies on.
	fv.safe(st, "slice", x, fmt.Sprintf("(and (<= 0 %s) (<= %s %s) (<= %s (sq.len %s)))", lo, lo, hi, hi, cont.T))
	return fv.subSeq(cont, lo, hi, info.TypeOf(x))
}

// subSeq builds the sequence s[lo:hi] as a fresh value with a shifted array.
func (fv *FV) subSeq(s Val, lo, hi string, t types.Type) Val {
	es := seqElemSort(s.S)
	if lo == "0" {
		return Val{T: fmt.Sprintf("((as mksq %s) (sq.arr %s) %s (ite (and (= (sq.ref %s) 0)) 0 (sq.ref %s)))", s.S, s.T, hi, s.T, s.T), S: s.S, Go: t}
	}
	if fv.pure > 0 {
		fv.unsupported("slicing with non-zero low bound in pure context")
	}
	r := fv.sess.fresh("sub", s.S)
	fv.sess.fact(fmt.Sprintf("(and (= (sq.len %s) (- %s %s)) (= (sq.ref %s) (sq.ref %s)) (forall ((i!q Int)) (! (= (select (sq.arr %s) i!q) (select (sq.arr %s) (+ i!q %s))) :pattern ((select (sq.arr %s) i!q)))))",
		r, hi, lo, r, s.T, r, s.T, lo, r))
	_ = es
	return Val{T: r, S: s.S, Go: t}
}

func (fv *FV) evalCompositeLit(st *State, x *ast.CompositeLit) Val {
	info := fv.info()
	t := info.TypeOf(x)
	switch u := underCore(t).(type) {
	case *types.Struct:
		sname := fv.sess.sortOf(t)
		vals := make([]string, u.NumFields())
		for i := 0; i < u.NumFields(); i++ {
			vals[i] = fv.zero(u.Field(i).Type()).T
		}
		for i, el := range x.Elts {
			if kv, ok := el.(*ast.KeyValueExpr); ok {
				name := kv.Key.(*ast.Ident).Name
				for j := 0; j < u.NumFields(); j++ {
					if u.Field(j).Name() == name {
						v := fv.convertTo(st, fv.eval(st, kv.Value), u.Field(j).Type())
						if v.Clos != nil {
							v = Val{T: "nil!Any", S: "Any"}
							fv.note("closure stored in struct field %s: opaque", name)
						}
						vals[j] = v.T
					}
				}
			} else {
				v := fv.convertTo(st, fv.eval(st, el), u.Field(i).Type())
				vals[i] = v.T
			}
		}
		if u.NumFields() == 0 {
			if sname == "Unit" {
				return Val{T: "unit", S: sname, Go: t}
			}
			return Val{T: "mk_" + sname, S: sname, Go: t}
		}
		return fv.name("lit", Val{T: fmt.Sprintf("(mk_%s %s)", sname, strings.Join(vals, " ")), S: sname, Go: t})
	case *types.Slice, *types.Array:
		et := elemType(u)
		es := fv.sess.sortOf(et)
		z := fv.zero(et)
		arr := fv.constArr("Int", es, z.T)
		n := 0
		for _, el := range x.Elts {
			if kv, ok := el.(*ast.KeyValueExpr); ok {
				_ = kv
				fv.unsupported("keyed slice literal")
			}
			var v Val
			if cl, ok := el.(*ast.CompositeLit); ok && cl.Type == nil {
				v = fv.evalCompositeLit(st, cl)
			} else {
				v = fv.eval(st, el)
			}
			v = fv.convertTo(st, v, et)
			arr = fmt.Sprintf("(store %s %d %s)", arr, n, v.T)
			n++
		}
		if a, ok := u.(*types.Array); ok {
			n = int(a.Len())
		}
		ref := fv.newRef()
		return fv.name("lit", Val{T: fmt.Sprintf("((as mksq %s) %s %d %s)", fmt.Sprintf("(GSeq %s)", es), arr, n, ref), S: fmt.Sprintf("(GSeq %s)", es), Go: t})
	case *types.Map:
		ks, vs := fv.sess.sortOf(u.Key()), fv.sess.sortOf(u.Elem())
		z := fv.zero(u.Elem())
		val := fv.constArr(ks, vs, z.T)
		dom := fmt.Sprintf("((as const (Array %s Bool)) false)", ks)
		for _, el := range x.Elts {
			kv := el.(*ast.KeyValueExpr)
			k := fv.convertTo(st, fv.eval(st, kv.Key), u.Key())
			var v Val
			if cl, ok := kv.Value.(*ast.CompositeLit); ok && cl.Type == nil {
				v = fv.evalCompositeLit(st, cl)
			} else {
				v = fv.eval(st, kv.Value)
			}
			v = fv.convertTo(st, v, u.Elem())
			val = fmt.Sprintf("(store %s %s %s)", val, k.T, v.T)
			dom = fmt.Sprintf("(store %s %s true)", dom, k.T)
		}
		ref := fv.newRef()
		return fv.name("lit", Val{T: fmt.Sprintf("((as mkmp %s) %s %s %s)", fmt.Sprintf("(GMap %s %s)", ks, vs), val, dom, ref), S: fmt.Sprintf("(GMap %s %s)", ks, vs), Go: t})
	case *types.Pointer:
		// &T{} elided in nested literal
	}
	fv.unsupported("composite literal of %s", t)
	return Val{}
}

// newRef returns a fresh non-nil identity for slices and maps.
func (fv *FV) newRef() string {
	if fv.pure > 0 {
		return "1"
	}
	if fv.curState != nil {
		return fv.bumpAlloc(fv.curState, "ref")
	}
	r := fv.sess.fresh("ref", "Int")
	fv.sess.fact(fmt.Sprintf("(> %s alloc0)", r))
	return r
}

// constArr: the array that maps every index to v. SMT-LIB constant arrays
// need a value; for symbolic defaults a fresh array with a quantified
// definition is used instead.
func (fv *FV) constArr(idx, elem, v string) string {
	if isSMTValue(v) {
		return fmt.Sprintf("((as const (Array %s %s)) %s)", idx, elem, v)
	}
	key := "carr:" + idx + ":" + elem + ":" + v
	name := "carr_" + sanitize(elem)
	if n, ok := fv.sess.strLits[key]; ok {
		return n
	}
	fv.sess.n++
	name = fmt.Sprintf("%s!%d", name, fv.sess.n)
	fv.sess.strLits[key] = name
	fv.sess.decls = append(fv.sess.decls, fmt.Sprintf("(declare-const %s (Array %s %s))", name, idx, elem),
		fmt.Sprintf("(assert (forall ((i!c %s)) (! (= (select %s i!c) %s) :pattern ((select %s i!c)))))", idx, name, v, name))
	return name
}

func isSMTValue(v string) bool {
	if v == "true" || v == "false" || v == "unit" {
		return true
	}
	if len(v) > 0 && v[0] >= '0' && v[0] <= '9' {
		return true
	}
	if strings.HasPrefix(v, "(- ") {
		return true
	}
	return false
}

// wellFormed records the type invariant of a value read out of a container
// (every Go value of a type satisfies it).
func (fv *FV) wellFormed(st *State, v Val) Val {
	if fv.pure > 0 || v.Go == nil {
		return v
	}
	switch types.Unalias(v.Go).Underlying().(type) {
	case *types.Basic:
		if v.S != "Int" {
			return v
		}
	}
	if inv := fv.typeInv(v.T, v.Go, 0); inv != "true" {
		fv.sess.fact(inv)
	}
	return v
}

// ---- allocation counter ----
// $alloc is a monotone counter: every reference that exists is <= $alloc; a new
// object or backing array gets a reference above it.

func (fv *FV) allocCur(st *State) string {
	if v, ok := st.heap["$alloc"]; ok {
		return v.T
	}
	return "alloc0"
}

// bumpAlloc returns a fresh reference strictly above everything allocated so far.
func (fv *FV) bumpAlloc(st *State, prefix string) string {
	r := fv.sess.fresh(prefix, "Int")
	fv.sess.fact(fmt.Sprintf("(> %s %s)", r, fv.allocCur(st)))
	st.heap["$alloc"] = Val{T: r, S: "Int"}
	return r
}

// advanceAlloc: an opaque step (callee, loop) may have allocated.
func (fv *FV) advanceAlloc(st *State) {
	if fv.pure > 0 {
		return
	}
	r := fv.sess.fresh("alloc", "Int")
	fv.sess.fact(fmt.Sprintf("(>= %s %s)", r, fv.allocCur(st)))
	st.heap["$alloc"] = Val{T: r, S: "Int"}
}

// liveRef: a pointer/slice/map value obtained from existing state is not above $alloc.
func (fv *FV) liveRef(st *State, v Val) {
	if fv.pure > 0 || v.Go == nil {
		return
	}
	switch types.Unalias(v.Go).Underlying().(type) {
	case *types.Pointer, *types.Chan:
		fv.sess.fact(fmt.Sprintf("(<= %s %s)", v.T, fv.allocCur(st)))
	case *types.Slice:
		fv.sess.fact(fmt.Sprintf("(<= (sq.ref %s) %s)", v.T, fv.allocCur(st)))
		if sl, ok := types.Unalias(v.Go).Underlying().(*types.Slice); ok && isPointer(sl.Elem()) && !strings.Contains(v.T, "(ite ") {
			// pointers stored in an existing slice refer to existing objects
			fv.sess.fact(fmt.Sprintf("(forall ((i!q Int)) (! (<= (select (sq.arr %s) i!q) %s) :pattern ((select (sq.arr %s) i!q))))", v.T, fv.allocCur(st), v.T))
		}
	case *types.Map:
		fv.sess.fact(fmt.Sprintf("(<= (mp.ref %s) %s)", v.T, fv.allocCur(st)))
	}
}
