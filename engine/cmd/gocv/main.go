package main

import (
	"encoding/json"
	"flag"
	"fmt"
	"os"
	"path/filepath"
	"regexp"
	"sort"
	"strings"
	"sync"
	"time"
)

type RunOpts struct {
	Repo     string
	Verif    string
	Prop     string
	FuncRe   string
	Tier     string
	TimeoutS int
	KeepSMT  string
	Verbose  bool
	Overlay  map[string][]byte
	Expected map[string]string // obligation -> ledger status (scheduling hints only)
	NoSolve  bool              // generate only (maintenance)
}

func envOr(k, d string) string {
	if v := os.Getenv(k); v != "" {
		return v
	}
	return d
}

func main() {
	if len(os.Args) < 2 {
		fmt.Fprintln(os.Stderr, "usage: gocv verify|check|ledger|list ...")
		os.Exit(2)
	}
	cmd := os.Args[1]
	fs := flag.NewFlagSet(cmd, flag.ExitOnError)
	opts := &RunOpts{}
	fs.StringVar(&opts.Repo, "repo", envOr("GOCV_REPO", "/repo"), "repository root")
	fs.StringVar(&opts.Verif, "verif", envOr("GOCV_VERIF", "/verif"), "verif root")
	fs.StringVar(&opts.Prop, "prop", "", "property id")
	fs.StringVar(&opts.FuncRe, "func", "", "regexp on contract key")
	fs.StringVar(&opts.Tier, "tier", "quick", "quick|thorough")
	fs.IntVar(&opts.TimeoutS, "timeout", 0, "per-obligation solver timeout (s)")
	fs.StringVar(&opts.KeepSMT, "keep", "", "directory to keep SMT queries in")
	fs.BoolVar(&opts.Verbose, "v", false, "verbose")
	fs.Parse(os.Args[2:])
	if opts.TimeoutS == 0 {
		opts.TimeoutS = 10
		if opts.Tier == "thorough" {
			opts.TimeoutS = 60
		}
	}
	switch cmd {
	case "verify":
		run, err := verifyRun(opts)
		if err != nil {
			fmt.Fprintln(os.Stderr, "error:", err)
			os.Exit(2)
		}
		printRun(run, opts.Verbose)
		if b, err := json.MarshalIndent(run.summary(), "", " "); err == nil && opts.KeepSMT != "" {
			os.WriteFile(filepath.Join(opts.KeepSMT, "run.json"), b, 0o644)
		}
	case "check":
		os.Exit(checkCmd(opts, fs.Args()))
	case "ledger":
		os.Exit(ledgerCmd(opts, fs.Args()))
	case "list":
		listCmd(opts)
	case "schemas":
		os.Exit(schemasCmd(opts))
	default:
		fmt.Fprintln(os.Stderr, "unknown command", cmd)
		os.Exit(2)
	}
}

// scanSpecFiles finds contract files in the repository and the speclib
// without loading Go packages.
func scanSpecFiles(opts *RunOpts) ([]*SpecFile, error) {
	var out []*SpecFile
	err := filepath.Walk(opts.Repo, func(p string, info os.FileInfo, err error) error {
		if err != nil {
			return nil
		}
		if info.IsDir() {
			n := info.Name()
			if n == ".git" || n == "node_modules" || n == "vendor" {
				return filepath.SkipDir
			}
			return nil
		}
		if m, _ := filepath.Match("zz_contracts*_verif.go", info.Name()); m {
			rel, _ := filepath.Rel(opts.Repo, filepath.Dir(p))
			sf, err := parseSpecFile(p, repoModule+"/"+filepath.ToSlash(rel))
			if err != nil {
				return err
			}
			out = append(out, sf)
		}
		return nil
	})
	if err != nil {
		return nil, err
	}
	ms, _ := filepath.Glob(filepath.Join(opts.Verif, "speclib", "*.gocv"))
	for _, m := range ms {
		sf, err := parseSpecFile(m, "")
		if err != nil {
			return nil, err
		}
		out = append(out, sf)
	}
	return out, nil
}

type Run struct {
	Opts    *RunOpts
	Results []*FuncResult
	World   *World
	LoadS   float64
	GenS    float64
	SolveS  float64
	TmpDir  string
	ExtraNotes  []string
	// stand-in programs that did not produce a result: name -> error text
	StandinErrs [][2]string
	Bounded     []BoundedResult
	// C05 bounded order stand-in: failing schema descriptors, family size
	OrderFailing []string
	OrderTotal   int
	OrderRan     bool
	// C02 bounded relations stand-in
	RelFailing []string
	RelTotal   int
	RelBound   int
	RelRan     bool
	// C07/C03 bounded negotiation stand-in
	NegFailing []string
	NegTotal   int
	NegRan     bool
	// C19: schema constants that changed after a machine was created from them
	SchemaMutated []string
	SchemaUseRan  bool
	// C14 bounded tracer-stream stand-in
	TFailing []string
	TTotal   int
	TRan     bool
	// C05 bounded handler-sequence stand-in
	SFailing []string
	STotal   int
	SRan     bool
	// C01 bounded clock stand-in
	CFailing []string
	CTotal   int
	CRan     bool
	// C06 bounded waiting stand-in
	WFailing []string
	WTotal   int
	WRan     bool
	// C08 bounded fault-injection stand-in
	FFailing []string
	FTotal   int
	FRan     bool
	// C13 bounded dispose stand-in
	DFailing []string
	DTotal   int
	DRan     bool
	// C04 bounded queue stand-in
	QFailing []string
	QTotal   int
	QRan     bool
	// network machine race stand-in (C12)
	NRFailing []string
	NRTotal   int
	NRRan     bool
	// helpers stand-in (C20)
	HeFailing []string
	HeTotal   int
	HeRan     bool
	// history log stand-in (C17)
	HFailing []string
	HTotal   int
	HRan     bool
	SchemaCount int
}

func hasProp(c *Contract, prop string) bool {
	if prop == "" {
		return true
	}
	for _, p := range c.Props {
		if p == prop {
			return true
		}
	}
	return false
}

func verifyRun(opts *RunOpts) (*Run, error) {
	t0 := time.Now()
	sfs, err := scanSpecFiles(opts)
	if err != nil {
		return nil, err
	}
	var re *regexp.Regexp
	if opts.FuncRe != "" {
		re = regexp.MustCompile(opts.FuncRe)
	}
	pkgset := map[string]bool{}
	selected := map[string]bool{}
	for _, sf := range sfs {
		for _, c := range sf.Contracts {
			if !hasProp(c, opts.Prop) {
				continue
			}
			key := c.Key()
			if c.IsLemma {
				key = "lemma:" + c.Pkg + "." + c.Name
			}
			if re != nil && !re.MatchString(key) {
				continue
			}
			selected[key] = true
			if c.Pkg != "" && strings.HasPrefix(c.Pkg, repoModule) {
				pkgset[c.Pkg] = true
			}
		}
	}
	if len(selected) == 0 {
		return nil, fmt.Errorf("no contracts selected (prop=%q func=%q)", opts.Prop, opts.FuncRe)
	}
	var patterns []string
	for p := range pkgset {
		patterns = append(patterns, "./"+strings.TrimPrefix(strings.TrimPrefix(p, repoModule), "/"))
	}
	sort.Strings(patterns)
	w, err := loadWorld(opts.Repo, patterns, opts.Overlay)
	if err != nil {
		return nil, err
	}
	if len(w.loadErrs) > 0 {
		return nil, fmt.Errorf("repository does not type-check: %s", strings.Join(w.loadErrs[:min(3, len(w.loadErrs))], "; "))
	}
	if err := w.loadSpecs(filepath.Join(opts.Verif, "speclib")); err != nil {
		return nil, err
	}
	run := &Run{Opts: opts, World: w, LoadS: time.Since(t0).Seconds()}
	t1 := time.Now()
	var keys []string
	for k := range w.contracts {
		if selected[k] {
			keys = append(keys, k)
		}
	}
	sort.Strings(keys)
	for _, k := range keys {
		c := w.contracts[k]
		res := w.verifyContract(c)
		run.Results = append(run.Results, res)
	}
	// selected contracts whose package was not loaded / not found
	for k := range selected {
		if _, ok := w.contracts[k]; !ok {
			run.Results = append(run.Results, &FuncResult{Name: shortName(k), Key: k, OutOfSubset: "contract not loaded (package missing?)"})
		}
	}
	if opts.Prop == "C19" || opts.Prop == "C15" {
		d, notes, err := extractSchemas(opts)
		if err != nil {
			return nil, err
		}
		if opts.Prop == "C15" {
			// the supervision property only concerns the node schemas' groups
			var keep []DumpSchema
			for _, s := range d.Schemas {
				if strings.HasSuffix(s.Pkg, "/pkg/node/states") && (s.Name == "SupervisorSchema" || s.Name == "WorkerSchema") {
					keep = append(keep, s)
				}
			}
			d.Schemas = keep
		}
		run.ExtraNotes = append(run.ExtraNotes, notes...)
		run.SchemaMutated, run.SchemaUseRan = d.Mutated, true
		gr, bg := w.groundResults(opts, d)
		run.Results = append(run.Results, gr...)
		run.SchemaCount = len(d.Schemas)
		bound := 400
		if opts.Tier == "thorough" {
			bound = 20000
		}
		br, err := runBoundedGroups(opts, bg, bound)
		if err != nil {
			run.StandinErrs = append(run.StandinErrs, [2]string{"groups", err.Error()})
		}
		run.Bounded = br
	}
	if opts.Prop == "C02" {
		k := 3
		if opts.Tier == "thorough" {
			k = 4
		}
		f, total, err := runBoundedRelations(opts, k)
		if err != nil {
			run.StandinErrs = append(run.StandinErrs, [2]string{"relations", err.Error()})
		} else {
			run.RelFailing, run.RelTotal, run.RelBound, run.RelRan = f, total, k, true
		}
	}
	if opts.Prop == "C07" || opts.Prop == "C03" || opts.Prop == "C05" { // C05: which handlers run, and whose veto counts
		f, total, err := runBoundedNegotiation(opts)
		if err != nil {
			run.StandinErrs = append(run.StandinErrs, [2]string{"negotiation", err.Error()})
		} else {
			run.NegFailing, run.NegTotal, run.NegRan = f, total, true
		}
	}
	if opts.Prop == "C14" {
		f, total, err := runBoundedTracers(opts)
		if err != nil {
			run.StandinErrs = append(run.StandinErrs, [2]string{"tracer", err.Error()})
		} else {
			run.TFailing, run.TTotal, run.TRan = f, total, true
		}
	}
	if opts.Prop == "C01" {
		k := 3
		if opts.Tier == "thorough" {
			k = 4
		}
		f, total, err := runBoundedClock(opts, k)
		if err != nil {
			run.StandinErrs = append(run.StandinErrs, [2]string{"clock", err.Error()})
		} else {
			run.CFailing, run.CTotal, run.CRan = f, total, true
		}
	}
	if opts.Prop == "C06" {
		f, total, err := runBoundedWaiting(opts)
		if err != nil {
			run.StandinErrs = append(run.StandinErrs, [2]string{"waiting", err.Error()})
		} else {
			run.WFailing, run.WTotal, run.WRan = f, total, true
		}
	}
	if opts.Prop == "C08" {
		f, total, err := runBoundedFaults(opts)
		if err != nil {
			run.StandinErrs = append(run.StandinErrs, [2]string{"fault", err.Error()})
		} else {
			run.FFailing, run.FTotal, run.FRan = f, total, true
		}
	}
	if opts.Prop == "C13" {
		f, total, err := runBoundedDispose(opts)
		if err != nil {
			run.StandinErrs = append(run.StandinErrs, [2]string{"dispose", err.Error()})
		} else {
			run.DFailing, run.DTotal, run.DRan = f, total, true
		}
	}
	if opts.Prop == "C04" || opts.Prop == "C06" || opts.Prop == "C14" { // C06: WhenQueue release is observed by the same family; C14: one traced transition per queued mutation
		f, total, err := runBoundedQueue(opts)
		if err != nil {
			run.StandinErrs = append(run.StandinErrs, [2]string{"queue", err.Error()})
		} else {
			run.QFailing, run.QTotal, run.QRan = f, total, true
		}
	}
	if opts.Prop == "C12" {
		f, total, err := runBoundedNetRace(opts)
		if err != nil {
			run.StandinErrs = append(run.StandinErrs, [2]string{"network-machine race", err.Error()})
		} else {
			run.NRFailing, run.NRTotal, run.NRRan = f, total, true
		}
	}
	if opts.Prop == "C20" {
		f, total, err := runBoundedHelpers(opts)
		if err != nil {
			run.StandinErrs = append(run.StandinErrs, [2]string{"helpers", err.Error()})
		} else {
			run.HeFailing, run.HeTotal, run.HeRan = f, total, true
		}
	}
	if opts.Prop == "C17" {
		f, total, err := runBoundedHistory(opts)
		if err != nil {
			run.StandinErrs = append(run.StandinErrs, [2]string{"history", err.Error()})
		} else {
			run.HFailing, run.HTotal, run.HRan = f, total, true
		}
	}
	if opts.Prop == "C05" {
		if f, total, err := runBoundedHandlerSeq(opts); err != nil {
			run.StandinErrs = append(run.StandinErrs, [2]string{"handler-sequence", err.Error()})
		} else {
			run.SFailing, run.STotal, run.SRan = f, total, true
		}
	}
	if opts.Prop == "C05" {
		f, total, err := runBoundedOrder(opts)
		if err != nil {
			run.StandinErrs = append(run.StandinErrs, [2]string{"order", err.Error()})
		} else {
			run.OrderFailing, run.OrderTotal, run.OrderRan = f, total, true
		}
	}
	if opts.Prop == "C11" {
		reps := 16
		if opts.Tier == "thorough" {
			reps = 64
		}
		br, err := runBoundedDeterminism(opts, reps)
		if err != nil {
			run.StandinErrs = append(run.StandinErrs, [2]string{"determinism", err.Error()})
		}
		run.Bounded = append(run.Bounded, br...)
	}
	run.GenS = time.Since(t1).Seconds()
	t2 := time.Now()
	if !opts.NoSolve {
		if err := run.solve(); err != nil {
			return nil, err
		}
	}
	run.SolveS = time.Since(t2).Seconds()
	return run, nil
}

func (r *Run) solve() error {
	dir := r.Opts.KeepSMT
	if dir == "" {
		d, err := os.MkdirTemp("", "gocv-smt-")
		if err != nil {
			return err
		}
		dir = d
		r.TmpDir = d
	} else {
		os.MkdirAll(dir, 0o755)
	}
	sem := make(chan struct{}, 16)
	var wg sync.WaitGroup
	for _, res := range r.Results {
		if res.OutOfSubset != "" || res.Sess == nil {
			continue
		}
		for _, o := range res.Obls {
			o := o
			res := res
			if o.Decided {
				continue
			}
			wg.Add(1)
			go func() {
				defer wg.Done()
				decls := res.Sess.decls[:o.NDecls]
				facts := res.Sess.facts[:o.NFacts]
				fn, err := writeQuery(dir, o.Name, decls, facts, o.Goal, true)
				if err != nil {
					o.Status = "error"
					o.Output = err.Error()
					return
				}
				o.File = fn
				if o.Kind == "vacuity" {
					// must NOT be unsat for any solver (a contradiction found by one
					// solver only is still a contradiction)
					o.Status = "ok"
					for _, sp := range []solverSpec{solvers[0], solvers[2]} {
						sem <- struct{}{}
						sr := runSolver(nil2ctx(), sp, fn, 3)
						<-sem
						o.Solver, o.Seconds = sr.Solver, o.Seconds+sr.Seconds
						if sr.Status == "unsat" {
							o.Status = "vacuous"
							o.Output = "hypotheses are contradictory (" + sp.name + ")"
							break
						}
					}
					return
				}
				if o.Goal == "true" {
					o.Status, o.Solver = "proved", "trivial"
					return
				}
				if r.Opts.Expected != nil && r.Opts.Expected[o.Name] == "known-finding" && r.Opts.Tier != "thorough" {
					// expected to fail: one short attempt only (keeps the cores free)
					sem <- struct{}{}
					sr := runSolver(nil2ctx(), solvers[0], fn, 3)
					<-sem
					applyResult(o, sr)
					return
				}
				sr := solveRace(fn, r.Opts.TimeoutS, sem)
				applyResult(o, sr)
			}()
		}
	}
	wg.Wait()
	return nil
}

func applyResult(o *Obl, sr SolverResult) {
	o.Solver, o.Seconds, o.Output = sr.Solver, sr.Seconds, sr.Output
	switch sr.Status {
	case "unsat":
		o.Status = "proved"
		o.Output = ""
	case "sat":
		o.Status = "refuted"
	case "error":
		o.Status = "error"
	default:
		o.Status = "unknown"
	}
}

// retry re-runs the solvers on obligations that the ledger records as proved
// but that did not discharge in the first pass, with a longer timeout and
// little contention, before anything is reported.
func (r *Run) retry(names map[string]bool, timeoutS int) {
	sem := make(chan struct{}, 14)
	var wg sync.WaitGroup
	for _, res := range r.Results {
		for _, o := range res.Obls {
			if !names[o.Name] || o.File == "" {
				continue
			}
			o := o
			wg.Add(1)
			go func() {
				defer wg.Done()
				ch := make(chan SolverResult, len(solvers))
				for _, sp := range solvers {
					go func(sp solverSpec) {
						sem <- struct{}{}
						defer func() { <-sem }()
						ch <- runSolver(nil2ctx(), sp, o.File, timeoutS)
					}(sp)
				}
				var best *SolverResult
				for range solvers {
					sr := <-ch
					if sr.Status == "unsat" || (sr.Status == "sat" && best == nil) {
						s2 := sr
						best = &s2
						if sr.Status == "unsat" {
							break
						}
					}
				}
				if best != nil {
					applyResult(o, *best)
				}
			}()
		}
	}
	wg.Wait()
}

func (r *Run) cleanup() {
	if r.TmpDir != "" {
		os.RemoveAll(r.TmpDir)
	}
}

type oblSummary struct {
	Name    string   `json:"name"`
	Status  string   `json:"status"`
	Solver  string   `json:"solver,omitempty"`
	Seconds float64  `json:"seconds"`
	Props   []string `json:"props,omitempty"`
	Text    string   `json:"text,omitempty"`
}

type runSummary struct {
	Funcs []struct {
		Name, Key, OutOfSubset string
		Notes, Assumed         []string
	}
	Obls []oblSummary
}

func (r *Run) summary() *runSummary {
	s := &runSummary{}
	for _, res := range r.Results {
		s.Funcs = append(s.Funcs, struct {
			Name, Key, OutOfSubset string
			Notes, Assumed         []string
		}{res.Name, res.Key, res.OutOfSubset, res.Notes, res.Assumed})
		for _, o := range res.Obls {
			s.Obls = append(s.Obls, oblSummary{o.Name, o.Status, o.Solver, o.Seconds, o.Props, o.Text})
		}
	}
	return s
}

func printRun(r *Run, verbose bool) {
	np, nf := 0, 0
	for _, res := range r.Results {
		if res.OutOfSubset != "" {
			fmt.Printf("OUTSIDE-SUBSET %s: %s\n", res.Name, res.OutOfSubset)
			continue
		}
		if res.Trusted {
			fmt.Printf("TRUSTED %s\n", res.Name)
			continue
		}
		for _, o := range res.Obls {
			ok := o.Status == "proved" || o.Status == "ok"
			if ok {
				np++
			} else {
				nf++
			}
			if verbose || !ok {
				fmt.Printf("%-9s %-70s %-7s %.2fs %s\n", o.Status, o.Name, o.Solver, o.Seconds, firstLines(o.Output, 1))
			}
		}
		if verbose {
			for _, n := range res.Notes {
				fmt.Printf("    note: %s\n", n)
			}
		}
	}
	fmt.Printf("obligations: %d ok, %d not; load %.1fs gen %.1fs solve %.1fs\n", np, nf, r.LoadS, r.GenS, r.SolveS)
}

func listCmd(opts *RunOpts) {
	sfs, err := scanSpecFiles(opts)
	if err != nil {
		fmt.Fprintln(os.Stderr, err)
		os.Exit(2)
	}
	for _, sf := range sfs {
		for _, c := range sf.Contracts {
			k := "func"
			if c.IsLemma {
				k = "lemma"
			}
			if c.Trusted {
				k = "trusted"
			}
			fmt.Printf("%-8s %-60s %v\n", k, shortName(c.Key()), c.Props)
		}
	}
}
