package main

// check / ledger commands: verdicts against the committed ledger, known
// findings, replay files, evidence.

import (
	"bytes"
	"context"
	"encoding/json"
	"fmt"
	"os"
	"os/exec"
	"path/filepath"
	"sort"
	"strconv"
	"strings"
	"time"
)

func nil2ctx() context.Context { return context.Background() }

type LedgerEntry struct {
	Status  string  `json:"status"` // proved | ok | known-finding | bounded | unproved
	Solver  string  `json:"solver,omitempty"`
	Seconds float64 `json:"seconds,omitempty"`
}

type Ledger map[string]map[string]LedgerEntry // property -> obligation -> entry

type KnownFinding struct {
	Status      string `json:"status"` // known | fixed
	Property    string `json:"property"`
	Obligation  string `json:"obligation"`
	What        string `json:"what"`
	Witness     string `json:"witness,omitempty"` // test file under /verif/witness, passes iff the defect is present
	WitnessPkg  string `json:"witness_pkg,omitempty"`
	WitnessRun  string `json:"witness_run,omitempty"`
	Commit      string `json:"commit,omitempty"`
	Group       string `json:"group,omitempty"`        // findings sharing one witness/what line
	WitnessRace bool   `json:"witness_race,omitempty"` // run the witness with -race; the defect is present iff a data race is reported
}

func loadLedger(verif string) Ledger {
	l := Ledger{}
	b, err := os.ReadFile(filepath.Join(verif, "baseline", "ledger.json"))
	if err == nil {
		json.Unmarshal(b, &l)
	}
	return l
}

func loadKnown(verif string) []KnownFinding {
	var k []KnownFinding
	b, err := os.ReadFile(filepath.Join(verif, "known_findings.json"))
	if err == nil {
		if err := json.Unmarshal(b, &k); err != nil {
			fmt.Fprintln(os.Stderr, "known_findings.json:", err)
		}
	}
	return k
}

func propsOf(opts *RunOpts) []string {
	sfs, err := scanSpecFiles(opts)
	if err != nil {
		return nil
	}
	set := map[string]bool{}
	for _, sf := range sfs {
		for _, c := range sf.Contracts {
			for _, p := range c.Props {
				set[p] = true
			}
		}
	}
	var out []string
	for p := range set {
		out = append(out, p)
	}
	sort.Strings(out)
	return out
}

// ledgerCmd regenerates baseline/ledger.json for the given properties (all
// if none given). Run only on the unchanged tree, never by a check.
func ledgerCmd(opts *RunOpts, args []string) int {
	props := args
	if len(props) == 0 {
		props = propsOf(opts)
	}
	led := loadLedger(opts.Verif)
	known := loadKnown(opts.Verif)
	bad := 0
	for _, p := range props {
		o := *opts
		o.Prop = p
		run, err := verifyRun(&o)
		if err != nil {
			fmt.Fprintln(os.Stderr, p, "error:", err)
			return 2
		}
		entries := map[string]LedgerEntry{}
		for _, res := range run.Results {
			if res.OutOfSubset != "" {
				fmt.Printf("%s OUTSIDE-SUBSET %s: %s\n", p, res.Name, res.OutOfSubset)
				bad++
				continue
			}
			for _, ob := range res.Obls {
				if (strings.Contains(ob.Name, "#perm.r.") || strings.Contains(ob.Name, "#perm.w.")) && p != "C12" {
					continue
				}
				st := ob.Status
				switch st {
				case "proved", "ok":
				default:
					if kf := findKnown(known, p, ob.Name); kf != nil {
						st = "known-finding"
					} else {
						fmt.Printf("%s NOT-PROVED %s (%s)\n", p, ob.Name, ob.Status)
						st = "unproved"
						bad++
					}
				}
				entries[ob.Name] = LedgerEntry{Status: st, Solver: ob.Solver, Seconds: round3(ob.Seconds)}
			}
		}
		led[p] = entries
		run.cleanup()
		fmt.Printf("%s: %d obligations in ledger\n", p, len(entries))
	}
	os.MkdirAll(filepath.Join(opts.Verif, "baseline"), 0o755)
	b, _ := json.MarshalIndent(led, "", " ")
	if err := os.WriteFile(filepath.Join(opts.Verif, "baseline", "ledger.json"), b, 0o644); err != nil {
		fmt.Fprintln(os.Stderr, err)
		return 2
	}
	if bad > 0 {
		fmt.Printf("WARNING: %d obligations/functions not proved and not known findings (recorded as unproved: they will be reported UNDECIDED, never VIOLATION)\n", bad)
	}
	return 0
}

func round3(f float64) float64 { return float64(int(f*1000)) / 1000 }

func findKnown(known []KnownFinding, prop, obl string) *KnownFinding {
	for i := range known {
		k := &known[i]
		// a known finding is identified by its obligation; the same obligation may
		// belong to several properties (it is reported under each)
		if k.Status == "known" && k.Obligation == obl {
			return k
		}
	}
	return nil
}

// runWitness runs a witness test (in-package, injected with -overlay) against
// the real code; it passes iff the recorded defect is still present.
func runWitness(opts *RunOpts, k *KnownFinding) (bool, string) {
	ok, out := runWitnessOnce(opts, k)
	if !ok && k.WitnessRace {
		// a data race shows up with high but not certain probability in one run
		for i := 0; i < 3 && !ok; i++ {
			ok, out = runWitnessOnce(opts, k)
		}
	}
	return ok, out
}

func runWitnessOnce(opts *RunOpts, k *KnownFinding) (bool, string) {
	if k.Witness == "" {
		return false, "no witness recorded"
	}
	src := filepath.Join(opts.Verif, "witness", k.Witness)
	if _, err := os.Stat(src); err != nil {
		return false, "witness file missing: " + src
	}
	tmp, err := os.MkdirTemp("", "gocv-wit-")
	if err != nil {
		return false, err.Error()
	}
	defer os.RemoveAll(tmp)
	pkgDir := filepath.Join(opts.Repo, k.WitnessPkg)
	target := filepath.Join(pkgDir, "zz_verif_witness_"+strings.TrimSuffix(k.Witness, ".go")+"_test.go")
	ov := map[string]any{"Replace": map[string]string{target: src}}
	ob, _ := json.Marshal(ov)
	ovf := filepath.Join(tmp, "ov.json")
	os.WriteFile(ovf, ob, 0o644)
	ctx, cancel := context.WithTimeout(context.Background(), 240*time.Second)
	defer cancel()
	args := []string{"test", "-overlay", ovf, "-vet=off", "-timeout", "120s", "-count=1", "-run", "^" + k.WitnessRun + "$", "./" + k.WitnessPkg}
	if k.WitnessRace {
		args = append([]string{"test", "-race"}, args[1:]...)
	}
	cmd := exec.CommandContext(ctx, "go", args...)
	cmd.Dir = opts.Repo
	cmd.Env = append(os.Environ(), "GOFLAGS=-mod=mod", "GOPROXY=off")
	var out bytes.Buffer
	cmd.Stdout = &out
	cmd.Stderr = &out
	err = cmd.Run()
	s := out.String()
	if k.WitnessRace {
		// a data-race witness: the defect is present iff the race detector reports a
		// race in the named test (the test then fails)
		return err != nil && strings.Contains(s, "WARNING: DATA RACE") && strings.Contains(s, "--- FAIL: "+k.WitnessRun), s
	}
	if err != nil {
		return false, s
	}
	if !strings.Contains(s, "ok") || strings.Contains(s, "no tests to run") {
		return false, s
	}
	return true, s
}

type Evidence struct {
	PropertyID  string         `json:"property_id"`
	Tier        string         `json:"tier"`
	Seed        int            `json:"seed"`
	Level       string         `json:"level"`
	Coverage    map[string]any `json:"coverage"`
	Assumptions []string       `json:"assumptions"`
	WallS       float64        `json:"wall_s"`
	Violations  int            `json:"violations"`
}

type PropMeta struct {
	Level       string   `json:"level"`
	Explanation string   `json:"explanation"`
	Unverified  []string `json:"unverified"`
}

func loadPropMeta(verif, prop string) PropMeta {
	pm := PropMeta{Level: "other"}
	b, err := os.ReadFile(filepath.Join(verif, "props", prop+".json"))
	if err == nil {
		json.Unmarshal(b, &pm)
	}
	return pm
}

var standingAssumptions = []string{
	"gocv itself (symbolic executor, VC encoder), go/types, and the SMT solvers are trusted; refutations are cross-checked only where a replay exists",
	"signed int arithmetic is mathematical (no overflow of int/int64 indices and lengths); unsigned arithmetic and conversions to unsigned types are wrap-exact (mod 2^N)",
	"slices and maps are modelled by value with an identity tag: writes through an alias of a slice's backing array or of a map are not propagated to the other alias; append/slices.Delete results are assumed not to be observed through the old header",
	"sync/atomic operations are modelled with sequential semantics; sync.Mutex/RWMutex only as a per-thread ghost holding state (no interleavings, no other threads)",
	"goroutines started with `go` are not executed at the spawn site; channel receives yield unconstrained values and never block; select picks any ready case",
	"strings are an uninterpreted sort with length, concatenation, prefix/suffix predicates; distinct literals are distinct",
	"map iteration order is adversarial (any order), so nothing proved depends on it",
	"method receivers of pointer type are non-nil on entry",
}

func checkCmd(opts *RunOpts, args []string) int {
	if len(args) < 1 {
		fmt.Fprintln(os.Stderr, "usage: gocv check [flags] <property> [quick|thorough]")
		return 2
	}
	prop := args[0]
	if len(args) > 1 {
		opts.Tier = args[1]
		if opts.Tier == "thorough" && opts.TimeoutS == 10 {
			opts.TimeoutS = 60
		}
	}
	opts.Prop = prop
	seed, _ := strconv.Atoi(os.Getenv("VERIF_SEED"))
	t0 := time.Now()
	evPath := filepath.Join(outRoot(opts), "evidence", prop+".json")
	os.MkdirAll(filepath.Dir(evPath), 0o755)
	pm := loadPropMeta(opts.Verif, prop)
	ledAll := loadLedger(opts.Verif)[prop]
	opts.Expected = map[string]string{}
	for n, e := range ledAll {
		opts.Expected[n] = e.Status
	}
	run, err := verifyRun(opts)
	if err == nil {
		// second chance for obligations that are proved on the baseline tree
		again := map[string]bool{}
		for _, res := range run.Results {
			for _, ob := range res.Obls {
				if ob.Kind != "vacuity" && ob.Status != "proved" && ob.Status != "refuted" && ledAll[ob.Name].Status == "proved" {
					again[ob.Name] = true
				}
			}
		}
		if len(again) > 0 {
			run.retry(again, 2*opts.TimeoutS)
		}
	}
	if err != nil {
		// cannot analyse (e.g. repository does not type-check): undecided, no alarm
		fmt.Printf("UNDECIDED property=%s engine could not run: %v\n", prop, err)
		writeEvidence(evPath, &Evidence{PropertyID: prop, Tier: opts.Tier, Seed: seed, Level: "other",
			Coverage:    map[string]any{"explanation": "the verifier could not analyse the tree: " + err.Error(), "obligations": 0, "discharged": 0},
			Assumptions: standingAssumptions, WallS: time.Since(t0).Seconds()})
		return 0
	}
	defer run.cleanup()
	led := loadLedger(opts.Verif)[prop]
	known := loadKnown(opts.Verif)

	var violations, undecided, knownLines []string
	seenKnown := map[string]bool{}
	byBackend := map[string]int{}
	solverSeconds := map[string]float64{}
	var samples []map[string]any
	var funcs []string
	var outside []string
	assum := map[string]bool{}
	var notes []string
	nObl, nDis, nKnown, nVac := 0, 0, 0, 0
	nFragileMiss := 0
	nFragile := 0
	for _, le := range led {
		if le.Status == "proved" && fragileProof(le) {
			nFragile++
		}
	}
	seenObl := map[string]bool{}
	witnessCache := map[string]bool{}
	var unsatCore []string
	cexCache := map[string]*Cex{}
	var cov_order, cov_rel, cov_neg, cov_q, cov_h, cov_he, cov_nr, cov_d, cov_f, cov_w, cov_su, cov_c, cov_s, cov_t map[string]any

	for _, res := range run.Results {
		if res.Trusted {
			assum["trusted (assumed, body not verified) contract: "+res.Name] = true
			continue
		}
		if res.OutOfSubset != "" {
			outside = append(outside, res.Name+": "+res.OutOfSubset)
			// the proof no longer applies; before leaving it undecided, run the real function
			// on small inputs against its contract (plain-value functions and machine readers)
			if run.World != nil && res.Contract != nil {
				if cx, _ := run.World.searchCounterexample(opts, res.Contract); cx != nil {
					in, _ := json.Marshal(cx.Inputs)
					outj, _ := json.Marshal(cx.Outputs)
					obs := "results " + string(outj)
					if cx.PanicMsg != "" {
						obs = "panic: " + cx.PanicMsg
					}
					dir := filepath.Join(outRoot(opts), "replays", prop)
					os.MkdirAll(dir, 0o755)
					rp := filepath.Join(dir, sanitize(res.Name+"_ensures."+cx.Clause)+".replay.txt")
					os.WriteFile(rp, []byte(fmt.Sprintf("property: %s\nobligation: %s#ensures.%s\nkind: contract clause evaluated on the real function (the function left the verified subset: %s)\nfailing input found on the real code (in-package test via go test -overlay; %d small inputs tried)\ninputs: %s\nobserved: %s\n--- replay ---\n%s\n", prop, res.Name, cx.Clause, res.OutOfSubset, cx.Explored, string(in), obs, cx.TestSrc)), 0o644)
					violations = append(violations, fmt.Sprintf("VIOLATION property=%s replay=%s obligation=%s#ensures.%s failing-input=%s falsifies=%s observed=%s", prop, rp, res.Name, cx.Clause, string(in), cx.Clause, firstLines(obs, 1)))
					continue
				}
			}
			undecided = append(undecided, fmt.Sprintf("UNDECIDED property=%s function=%s outside the verified subset: %s", prop, res.Name, res.OutOfSubset))
			continue
		}
		funcs = append(funcs, res.Name)
		for _, a := range res.Assumed {
			assum[a] = true
		}
		for _, n := range res.Notes {
			notes = append(notes, res.Name+": "+n)
		}
		for _, ob := range res.Obls {
			if strings.Contains(ob.Name, "#perm.r.") || strings.Contains(ob.Name, "#perm.w.") {
				// lock-discipline obligations of guarded fields belong to C12 only
				if prop != "C12" {
					continue
				}
			}
			seenObl[ob.Name] = true
			if ob.Kind == "vacuity" {
				nVac++
				if ob.Status == "vacuous" {
					// an obligation that failed earlier in the same function is assumed
					// afterwards (assert-then-assume), which by itself can make the rest of
					// the path unreachable: that is a violation to report, not a broken contract
					failedBefore := false
					for _, o2 := range res.Obls {
						if o2.Kind != "vacuity" && o2.Status != "proved" {
							failedBefore = true
						}
					}
					if !failedBefore {
						fmt.Printf("SELFTEST-FAIL property=%s %s: contract hypotheses are contradictory\n", prop, ob.Name)
						return 3
					}
				}
				continue
			}
			le, inLedger := led[ob.Name]
			switch ob.Status {
			case "proved":
				nObl++
				nDis++
				byBackend[ob.Solver]++
				solverSeconds[ob.Solver] += ob.Seconds
				if len(samples) < 12 {
					samples = append(samples, map[string]any{"obligation": ob.Name, "verdict": "discharged", "backend": ob.Solver, "seconds": round3(ob.Seconds), "clause": ob.Text})
				}
			default:
				if kf := findKnown(known, prop, ob.Name); kf != nil {
					key := kf.Witness + "/" + kf.WitnessRun
					ok, cached := witnessCache[key]
					if !cached {
						ok, _ = runWitness(opts, kf)
						witnessCache[key] = ok
					}
					if ok {
						nKnown++
						g := kf.Group
						if g == "" {
							g = kf.Obligation
						}
						if !seenKnown[g] {
							seenKnown[g] = true
							knownLines = append(knownLines, fmt.Sprintf("KNOWN-FINDING: property=%s %s [%s]", prop, kf.What, kf.Obligation))
						}
						samples = append(samples, map[string]any{"obligation": ob.Name, "verdict": "known-finding", "what": kf.What})
						continue
					}
					// witness no longer reproduces but the obligation still fails:
					// a different violation of the same obligation
				}
				nObl++
				// a baseline proof that only went through on a second solver / seed, or took a
				// good part of the budget, is FRAGILE: if it now comes back without an answer
				// (not refuted) that is not evidence of anything - harmless edits (a positive
				// guard instead of a continue) move such proofs past the budget. Reported as
				// UNDECIDED; a refutation (sat) of the same obligation is still a violation.
				if inLedger && le.Status == "proved" && ob.Status != "refuted" && fragileProof(le) {
					undecided = append(undecided, fmt.Sprintf("UNDECIDED property=%s obligation=%s status=%s (fragile baseline proof: %s, %.1fs; no answer now is not evidence; not an alarm)", prop, ob.Name, ob.Status, le.Solver, le.Seconds))
					nObl--
					nFragileMiss++
					continue
				}
				if inLedger && (le.Status == "proved") {
					rp := writeReplay(opts, prop, ob, run)
					suffix := " no-failing-input-found"
					if ob.Kind == "ground" && ob.Status == "refuted" {
						// decided exactly on the extracted constant: the constant is the failing input
						suffix = ""
					}
					// a failed proof of a plain-value function: look for a concrete failing
					// input by running the real function on small inputs (search.go)
					if run.World != nil && ob.Kind != "ground" {
						cx, searched := cexCache[res.Name]
						if !searched {
							if c := res.Contract; c != nil {
								cx, _ = run.World.searchCounterexample(opts, c)
							}
							cexCache[res.Name] = cx
						}
						if cx != nil {
							in, _ := json.Marshal(cx.Inputs)
							outj, _ := json.Marshal(cx.Outputs)
							obs := "results " + string(outj)
							if cx.PanicMsg != "" {
								obs = "panic: " + cx.PanicMsg
							}
							appendReplay(rp, fmt.Sprintf("\n--- failing input found on the real code (in-package test via go test -overlay; %d small inputs tried) ---\ncontract clause falsified: %s\ninputs: %s\nobserved: %s\n--- replay test (put into the package directory as a _test.go file) ---\n%s\n", cx.Explored, cx.Clause, string(in), obs, cx.TestSrc))
							suffix = fmt.Sprintf(" failing-input=%s falsifies=%s observed=%s", string(in), cx.Clause, firstLines(obs, 1))
						}
					}
					violations = append(violations, fmt.Sprintf("VIOLATION property=%s replay=%s obligation=%s status=%s%s", prop, rp, ob.Name, ob.Status, suffix))
					samples = append(samples, map[string]any{"obligation": ob.Name, "verdict": "violation", "status": ob.Status})
				} else {
					// an obligation without a baseline (new expression, new call): a failed proof
					// alone decides nothing, but the real function can be run on small inputs - a
					// panic or a falsified ledger-proved clause there is a violation with its input
					if !inLedger && run.World != nil && ob.Kind != "ground" {
						cx, searched := cexCache[res.Name]
						if !searched {
							if c := res.Contract; c != nil {
								cx, _ = run.World.searchCounterexample(opts, c)
							}
							cexCache[res.Name] = cx
						}
						if cx != nil {
							rp := writeReplay(opts, prop, ob, run)
							in, _ := json.Marshal(cx.Inputs)
							outj, _ := json.Marshal(cx.Outputs)
							obs := "results " + string(outj)
							if cx.PanicMsg != "" {
								obs = "panic: " + cx.PanicMsg
							}
							appendReplay(rp, fmt.Sprintf("\n--- failing input found on the real code (in-package test via go test -overlay; %d small inputs tried) ---\ncontract clause falsified: %s\ninputs: %s\nobserved: %s\n--- replay test (put into the package directory as a _test.go file) ---\n%s\n", cx.Explored, cx.Clause, string(in), obs, cx.TestSrc))
							violations = append(violations, fmt.Sprintf("VIOLATION property=%s replay=%s obligation=%s status=%s failing-input=%s falsifies=%s observed=%s", prop, rp, ob.Name, ob.Status, string(in), cx.Clause, firstLines(obs, 1)))
							samples = append(samples, map[string]any{"obligation": ob.Name, "verdict": "violation", "status": ob.Status})
							continue
						}
					}
					undecided = append(undecided, fmt.Sprintf("UNDECIDED property=%s obligation=%s status=%s (not proved on the baseline tree either; not an alarm)", prop, ob.Name, ob.Status))
					nObl--
				}
			}
		}
	}
	// thorough tier: every plain-value function / machine reader under contract is also run on
	// small inputs against its contract on the real code (bounded conformance, never counted as
	// discharged); a falsified clause is a violation with its input
	confFuncs, confInputs := 0, 0
	if opts.Tier == "thorough" && run.World != nil {
		for _, res := range run.Results {
			if res.Contract == nil || res.Trusted || res.OutOfSubset != "" {
				continue
			}
			if _, done := cexCache[res.Name]; done {
				continue
			}
			cx, why := run.World.searchCounterexample(opts, res.Contract)
			cexCache[res.Name] = cx
			if cx != nil {
				in, _ := json.Marshal(cx.Inputs)
				outj, _ := json.Marshal(cx.Outputs)
				dir := filepath.Join(outRoot(opts), "replays", prop)
				os.MkdirAll(dir, 0o755)
				rp := filepath.Join(dir, sanitize(res.Name+"_conformance."+cx.Clause)+".replay.txt")
				os.WriteFile(rp, []byte(fmt.Sprintf("property: %s\nobligation: %s#conformance.%s\nkind: contract clause evaluated on the real function for small inputs (thorough tier)\ninputs: %s\nobserved: results %s %s\n--- replay ---\n%s\n", prop, res.Name, cx.Clause, string(in), string(outj), cx.PanicMsg, cx.TestSrc)), 0o644)
				violations = append(violations, fmt.Sprintf("VIOLATION property=%s replay=%s obligation=%s#conformance.%s failing-input=%s falsifies=%s", prop, rp, res.Name, cx.Clause, string(in), cx.Clause))
				continue
			}
			var n int
			if _, err := fmt.Sscanf(why, "no failing input among %d small inputs", &n); err == nil {
				confFuncs++
				confInputs += n
			}
		}
	}
	// ledger-proved contract-clause obligations that disappeared
	var missing []string
	for name, le := range led {
		if le.Status == "proved" && !seenObl[name] {
			missing = append(missing, name)
		}
	}
	sort.Strings(missing)
	for _, m := range missing {
		if strings.Contains(m, "#safe.") || strings.Contains(m, "#perm.") {
			continue // code-shaped obligations legitimately come and go with edits
		}
		fn := m[:strings.Index(m, "#")]
		isOut := false
		for _, o := range outside {
			if strings.HasPrefix(o, fn+":") {
				isOut = true
			}
		}
		if !isOut {
			undecided = append(undecided, fmt.Sprintf("UNDECIDED property=%s obligation=%s no longer generated (code shape changed)", prop, m))
		}
	}
	_ = unsatCore
	// bounded stand-ins: a violation found there is a concrete failing history on the real code
	for _, b := range run.Bounded {
		if b.Violation != "" && b.Kind == "determinism" {
			name := "bounded.resolver.target_order_determinism"
			if kf := findKnown(known, prop, name); kf != nil {
				if ok, _ := runWitness(opts, kf); ok {
					nKnown++
					fmt.Printf("KNOWN-FINDING: property=%s %s [%s]\n", prop, kf.What, name)
					continue
				}
			}
			dir := filepath.Join(outRoot(opts), "replays", prop)
			os.MkdirAll(dir, 0o755)
			rp := filepath.Join(dir, sanitize(name)+".replay.txt")
			os.WriteFile(rp, []byte(fmt.Sprintf("property: %s\nobligation: %s\nkind: bounded stand-in on the real machine: %s, %d re-executions each\nfailing-input: %s\n", prop, name, b.Schema, b.Bound, b.Violation)), 0o644)
			violations = append(violations, fmt.Sprintf("VIOLATION property=%s replay=%s obligation=%s re-executions of the same mutation on the same schema differ: %s", prop, rp, name, b.Violation))
			continue
		}
		if b.Violation != "" {
			dir := filepath.Join(outRoot(opts), "replays", prop)
			os.MkdirAll(dir, 0o755)
			rp := filepath.Join(dir, sanitize("bounded."+b.Schema+"."+b.Group)+".replay.txt")
			os.WriteFile(rp, []byte(fmt.Sprintf("property: %s\nobligation: bounded.%s.group_%s.exclusive\nkind: bounded reachability on the real resolver (single-state Add/Remove from the empty machine)\nfailing-history: %s\n", prop, b.Schema, b.Group, b.Violation)), 0o644)
			violations = append(violations, fmt.Sprintf("VIOLATION property=%s replay=%s obligation=bounded.%s.group_%s.exclusive two members of an exclusive group active: %s", prop, rp, b.Schema, b.Group, b.Violation))
		}
	}
	if run.OrderRan {
		kl, vl, cv := boundedListVerdict(opts, prop, known, "bounded.resolver.target_order", "c05_order_known.txt", run.OrderFailing, run.OrderTotal,
			"acyclic 4-state schemas, <=1 Require and <=1 After per state, Add{A,B,C,D}",
			"the After comparator of SortStates is not a strict weak order: Add{A,B,C,D} resolves a state before one it is declared After",
			"resolve a state before one it Requires / is After", nil)
		if kl != "" {
			knownLines = append(knownLines, kl)
			nKnown++
		}
		if vl != "" {
			violations = append(violations, vl)
		}
		cov_order = cv
	}
	if run.NegRan {
		_, vl, cv := boundedListVerdict(opts, prop, known, "bounded.negotiation.partial_acceptance", "none.txt", run.NegFailing, run.NegTotal,
			"trigger T and three states X1..X3 (all Auto, or all plain and added manually), every veto mask over their Enter / T->Xi state-state handlers, three state orders; CanAdd / CanRemove against the mutation issued next (inactive states with Enter / AnyEnter vetoes, already active states with self-handler vetoes, Exit vetoes)",
			"", "end with the wrong active set or result (auto states are judged one by one; a manual mutation is all-or-nothing)", nil)
		if vl != "" {
			violations = append(violations, vl)
		}
		cov_neg = cv
	}
	if run.SchemaUseRan && prop == "C19" {
		_, vl, cv := boundedListVerdict(opts, prop, known, "ground.schemas.unchanged_by_use", "none.txt", run.SchemaMutated, run.SchemaCount,
			"every shipped schema constant and state-group variable, dumped before and after a machine was created from each schema (Schema.Parse runs on it)",
			"", "are changed by being used (a parsed schema must be a copy: shared group slices of the constants were edited in place)", nil)
		if vl != "" {
			violations = append(violations, vl)
		}
		cov_su = cv
	}
	if run.TRan {
		_, vl, cv := boundedListVerdict(opts, prop, known, "bounded.tracers.stream", "none.txt", run.TFailing, run.TTotal,
			"states A, B (Multi), C (Removes A); every history of up to 3 mutations over Add/Remove/Set of each state, Add{A,B}, CanAdd{C}; variants: no handlers, struct-bound final handlers returning values, vetoing CEnter; two tracers bound",
			"", "break the tracer stream (Init, Start, [Finals], End once and in order per transition, no interleaving, time-before = previous time-after, canceled and check-only ones report no change, last time-after = final machine time, both tracers see the same, the ClockBefore()/ClockAfter() accessors read at every hook agree with the transition's times)", nil)
		if vl != "" {
			violations = append(violations, vl)
		}
		cov_t = cv
	}
	if run.SRan {
		_, vl, cv := boundedListVerdict(opts, prop, known, "bounded.handlers.sequence", "none.txt", run.SFailing, run.STotal,
			"states A, B and the Multi state M with a handler bound for every handler name; every history of up to 2 mutations over Add/Remove/Set of each state and Add{A,M}; two instances of one handler struct type bound (each binding called in order with its own receiver, a veto by either cancels)",
			"", "run handlers out of the documented sequence (Exit, Enter, self, state-state, AnyEnter, End, State, AnyState; exactly the documented handlers per phase)", nil)
		if vl != "" {
			violations = append(violations, vl)
		}
		cov_s = cv
	}
	if run.CRan {
		_, vl, cv := boundedListVerdict(opts, prop, known, "bounded.clock.views", "none.txt", run.CFailing, run.CTotal,
			"schema A, B (Multi), C (Removes A), D (Adds B, Requires A); every history of up to 3 (thorough: 4) mutations over Add/Remove/Set of each state, Add{A,B}, CanAdd, CanRemove; variants: no handlers, vetoing CEnter, panicking AEnter, panicking BState",
			"", "break the clock views (tick parity = Is = ActiveStates = !Not, Time = Tick = Clock, ticks never decrease, step +1 / +2 only as documented, canceled and check-only transitions move nothing)", nil)
		if vl != "" {
			violations = append(violations, vl)
		}
		cov_c = cv
	}
	if run.WRan {
		_, vl, cv := boundedListVerdict(opts, prop, known, "bounded.waiting.histories", "none.txt", run.WFailing, run.WTotal,
			"every history of up to 3 single-state Add/Remove mutations over A and the Multi state B, one subscription of every kind (When, WhenNot, WhenTime, WhenTicks, state context; four WhenQuery of which three become true in the same transition; When / WhenNot / WhenTime / WhenQuery bound to a context canceled right after subscribing) taken at every position, on a fresh machine and after SetSchema",
			"", "close a channel although its condition never held, keep one open although it did, or cancel / keep a state context against its state's tick", nil)
		if vl != "" {
			violations = append(violations, vl)
		}
		cov_w = cv
	}
	if run.FRan {
		_, vl, cv := boundedListVerdict(opts, prop, known, "bounded.faults.handler_positions", "none.txt", run.FFailing, run.FTotal,
			"machine with B active, Set{A} (BExit, AEnter, AnyEnter, BEnd, AState, AnyState), two handler bindings, a panic (error / string) or a stall past HandlerTimeout injected once at every (handler, binding) of that mutation; for the global handlers also repeatedly (the fault recurs inside the Exception transition); a stall past HandlerTimeout + HandlerDeadline + HandlerBackoff (abandoned handler returning late); panics under PanicToErr / PanicToErrState",
			"", "break fault containment (call returns Canceled, Exception carries the panic message / the timeout is reported, negotiation faults change nothing, final faults roll back the unfinished handlers, tick parity holds, a probe mutation executes afterwards)", nil)
		if vl != "" {
			violations = append(violations, vl)
		}
		cov_f = cv
	}
	if run.DRan {
		_, vl, cv := boundedListVerdict(opts, prop, known, "bounded.dispose.scenarios", "none.txt", run.DFailing, run.DTotal,
			"disposal landing {idle, inside a final handler, inside a negotiation handler, from another goroutine during a running handler, twice, DisposeForce, parent context canceled, after all handlers were detached (plain and forced)} x Start active or not x with or without the Disposing/Disposed mixin handlers; an Eval with its own live context pending at disposal; handler goroutine gone afterwards",
			"", "leave a waiter, a state context or the caller hanging, or run a dispose handler not exactly once", nil)
		if vl != "" {
			violations = append(violations, vl)
		}
		cov_d = cv
	}
	if run.QRan {
		_, vl, cv := boundedListVerdict(opts, prop, known, "bounded.queue.drain", "none.txt", run.QFailing, run.QTotal,
			"states A,B,C (CEnter vetoes or not), Add A; every script of up to 2 Add/Remove mutations issued from A's final handler (WhenQueue subscribed at issue time, or afterwards latest tick first), from a tracer's QueueEnd hook, and from an Eval func on the idle machine",
			"", "break the queue discipline (nested mutations are queued, run in queue-tick order, none lost, WhenQueue released for accepted and canceled ones)", nil)
		if vl != "" {
			violations = append(violations, vl)
		}
		cov_q = cv
	}
	if run.NRRan {
		_, vl, cv := boundedListVerdict(opts, prop, known, "bounded.netmach.readers_race", "none.txt", run.NRFailing, run.NRTotal,
			"one program family on a NetworkMachine under the Go race detector: an updater feeding clock updates (ticks growing, the queue tick periodically falling back) and six reader goroutines over Is/Not/Any, Tick/Time/Clock, ActiveStates/String/QueueTick/MachineTick, When/WhenNot/WhenTime, WhenQueue, NewStateCtx/StateNames/Schema; 2 runs (thorough 6)",
			"", "report a data race", nil)
		if vl != "" {
			violations = append(violations, vl)
		}
		cov_nr = cv
	}
	if run.HeRan {
		kl, vl, cv := boundedListVerdict(opts, prop, known, "bounded.helpers.truth", "c20_helpers_known.txt", run.HeFailing, run.HeTotal,
			"wait / ask helpers of pkg/helpers on the real machine: Cant* / Ask* for a possible and a vetoed Add / Remove, Add1Sync / Remove1Sync executed at once, queued then accepted, queued then vetoed, Add1Async with the awaited state activated by a relation, by a handler synchronously, by a goroutine later, and a rejected mutation; WaitForAny / WaitForAll / WaitForErrAny / WaitForErrAll with the channel closing, a timeout and a machine error during the wait; every helper on a disposed machine; 3 s watchdog on every call",
			"helpers that do not answer what happened to the machine", "return something other than what happened to the machine, or block", nil)
		if kl != "" {
			knownLines = append(knownLines, kl)
			nKnown++
		}
		if vl != "" {
			violations = append(violations, vl)
		}
		cov_he = cv
	}
	if run.HRan {
		_, vl, cv := boundedListVerdict(opts, prop, known, "bounded.history.log", "none.txt", run.HFailing, run.HTotal,
			"in-memory history on the real machine: states A, B (Multi), C (Removes A); every history of up to 3 Add/Remove mutations; tracking configurations {all states, reordered subset, MaxRecords=2, Changed allow-list, Called block-list, TrackRejected}; queries Active / Inactive / Activated / Deactivated per tracked state, alone, with machine-time-sum ranges and with limit 1; the *Between helpers; Export -> Import on a fresh machine; Export from inside final handlers and tracer hooks",
			"", "break the log (one record per matching transition, in order, tracked times = machine time after it, bounded by MaxRecords) or a query (FindLatest returns precisely the matching records, newest first; *Between helpers agree with the log) or the Export/Import round trip", nil)
		if vl != "" {
			violations = append(violations, vl)
		}
		cov_h = cv
	}
	if run.RelRan {
		kl, vl, cv := boundedListVerdict(opts, prop, known, "bounded.resolver.relations", "c02_bounded_known.txt", run.RelFailing, run.RelTotal,
			fmt.Sprintf("4-state schemas with at most %d relations (Add/Remove/Require, one target each), start sets {} and {X}, single-state Add/Remove/Set", run.RelBound),
			"a state Removed by an active state is (re-)activated through an Add relation, so both stay active",
			"break a clause of the property (Require closure, Remove consistency, Add followed, justified changes)", c02ResurrectionClass)
		if kl != "" {
			knownLines = append(knownLines, kl)
			nKnown++
		}
		if vl != "" {
			violations = append(violations, vl)
		}
		cov_rel = cv
	}
	notes = append(notes, run.ExtraNotes...)
	// a stand-in program that produced no result: if the REAL code crashed, deadlocked or hung
	// while running the family, that is a concrete failing history (violation, with the output
	// as the replay); if the program could not be built (an API it uses changed), the family is
	// undecided - said so, never silently skipped
	for _, se := range run.StandinErrs {
		name := "bounded." + strings.ReplaceAll(se[0], " ", "_") + ".run"
		crash := false
		for _, mark := range []string{"panic:", "fatal error:", "signal: killed", "all goroutines are asleep", "context deadline exceeded", "exit status 2"} {
			if strings.Contains(se[1], mark) {
				crash = true
			}
		}
		if crash {
			dir := filepath.Join(outRoot(opts), "replays", prop)
			os.MkdirAll(dir, 0o755)
			rp := filepath.Join(dir, sanitize(name)+".replay.txt")
			os.WriteFile(rp, []byte(fmt.Sprintf("property: %s\nobligation: %s\nkind: the bounded stand-in program (%s family) crashed or hung while driving the real code; it runs to completion on the baseline tree\noutput:\n%s\n", prop, name, se[0], se[1])), 0o644)
			violations = append(violations, fmt.Sprintf("VIOLATION property=%s replay=%s obligation=%s the real code crashed or hung under the bounded %s family: %s", prop, rp, name, se[0], firstLines(se[1], 2)))
		} else {
			undecided = append(undecided, fmt.Sprintf("UNDECIDED property=%s obligation=%s the bounded %s stand-in could not be built or run (tool limit, not an alarm): %s", prop, name, se[0], firstLines(se[1], 2)))
		}
		notes = append(notes, "bounded "+se[0]+" stand-in did not run: "+se[1])
	}
	for _, l := range knownLines {
		fmt.Println(l)
	}
	for _, l := range undecided {
		fmt.Println(l)
	}
	for _, l := range violations {
		fmt.Println(l)
	}
	level := pm.Level
	if level == "proof" && (nDis != nObl || nObl == 0) {
		level = "other"
	}
	var as []string
	as = append(as, standingAssumptions...)
	for a := range assum {
		as = append(as, a)
	}
	sort.Strings(as[len(standingAssumptions):])
	uniqNotes := dedup(notes)
	cov := map[string]any{
		"obligations":               nObl,
		"discharged":                nDis,
		"checker_cmd":               fmt.Sprintf("/verif/check %s %s  (gocv: weakest-precondition/symbolic-execution VCs over go/ast+go/types of /repo's working tree, discharged by z3 5.1.0 / z3 4.8.12 / cvc5 1.0.3, %ds per obligation)", prop, opts.Tier, opts.TimeoutS),
		"trusted_base":              []string{"gocv VC generator (/verif/engine)", "go/types (go1.26.8, x/tools v0.50.0)", "z3 5.1.0", "z3 4.8.12", "cvc5 1.0.3", "modelled semantics of append/len/make/copy/delete, slices.Clone/Contains/Index/Equal/Delete/Reverse/Concat, maps.Clone, sort.Search, sync/atomic, sync.(RW)Mutex"},
		"explanation":               pm.Explanation,
		"functions_under_contract":  funcs,
		"functions_outside_subset":  outside,
		"discharged_by_backend":     byBackend,
		"solver_seconds_by_backend": roundMap(solverSeconds),
		"known_finding_obligations": nKnown,
		"vacuity_checks_passed":     nVac,
		"undecided":                 len(undecided),
		"fragile_baseline_proofs":   nFragile,
		"fragile_unanswered_now":    nFragileMiss,
		"unverified_remainder":      pm.Unverified,
		"abstractions":              uniqNotes,
		"samples":                   samples,
		"timing":                    map[string]any{"load_s": round3(run.LoadS), "vcgen_s": round3(run.GenS), "solve_s": round3(run.SolveS)},
	}
	if confFuncs > 0 {
		cov["bounded_concrete_conformance"] = map[string]any{"functions": confFuncs, "inputs_run_on_the_real_code": confInputs, "label": "bounded", "note": "contract clauses evaluated by the concrete evaluator on outputs of the real functions for small inputs; never counted as discharged"}
	}
	if cov_order != nil {
		cov["bounded_order_standin"] = cov_order
	}
	if cov_rel != nil {
		cov["bounded_relations_standin"] = cov_rel
	}
	if cov_t != nil {
		cov["bounded_tracer_standin"] = cov_t
	}
	if cov_s != nil {
		cov["bounded_handler_sequence_standin"] = cov_s
	}
	if cov_c != nil {
		cov["bounded_clock_standin"] = cov_c
	}
	if cov_su != nil {
		cov["schema_constants_unchanged_by_use"] = cov_su
	}
	if cov_w != nil {
		cov["bounded_waiting_standin"] = cov_w
	}
	if cov_f != nil {
		cov["bounded_fault_standin"] = cov_f
	}
	if cov_d != nil {
		cov["bounded_dispose_standin"] = cov_d
	}
	if cov_h != nil {
		cov["bounded_history_standin"] = cov_h
	}
	if cov_nr != nil {
		cov["bounded_netmach_race_standin"] = cov_nr
	}
	if cov_he != nil {
		cov["bounded_helpers_standin"] = cov_he
	}
	if cov_q != nil {
		cov["bounded_queue_standin"] = cov_q
	}
	if cov_neg != nil {
		cov["bounded_negotiation_standin"] = cov_neg
	}
	if len(run.Bounded) > 0 || run.SchemaCount > 0 {
		cov["schemas_extracted"] = run.SchemaCount
		cov["bounded_obligations"] = run.Bounded
		cov["bounded_note"] = "bounded obligations are exhaustive reachability runs on the real resolver up to the stated number of active sets; they are never counted in discharged"
	}
	ev := &Evidence{PropertyID: prop, Tier: opts.Tier, Seed: seed, Level: level, Coverage: cov, Assumptions: as,
		WallS: round3(time.Since(t0).Seconds()), Violations: len(violations)}
	writeEvidence(evPath, ev)
	fmt.Printf("property=%s tier=%s functions=%d obligations=%d discharged=%d known-finding-obligations=%d undecided=%d violations=%d wall=%.1fs\n",
		prop, opts.Tier, len(funcs), nObl, nDis, nKnown, len(undecided), len(violations), time.Since(t0).Seconds())
	if len(violations) > 0 {
		return 1
	}
	return 0
}

func dedup(xs []string) []string {
	seen := map[string]bool{}
	var out []string
	for _, x := range xs {
		if !seen[x] {
			seen[x] = true
			out = append(out, x)
		}
	}
	return out
}

func roundMap(m map[string]float64) map[string]float64 {
	o := map[string]float64{}
	for k, v := range m {
		o[k] = round3(v)
	}
	return o
}

func writeEvidence(path string, ev *Evidence) {
	b, _ := json.MarshalIndent(ev, "", " ")
	os.WriteFile(path, b, 0o644)
}

// writeReplay persists what is known about a failed obligation.
func writeReplay(opts *RunOpts, prop string, ob *Obl, run *Run) string {
	dir := filepath.Join(outRoot(opts), "replays", prop)
	os.MkdirAll(dir, 0o755)
	name := sanitize(ob.Name)
	if len(name) > 150 {
		name = name[:150]
	}
	p := filepath.Join(dir, name+".replay.txt")
	var b strings.Builder
	fmt.Fprintf(&b, "property: %s\nobligation: %s\nkind: %s\nfunction: %s\nsource: %s\nclause: %s\n", prop, ob.Name, ob.Kind, ob.Func, ob.Pos, ob.Text)
	fmt.Fprintf(&b, "status: %s (this obligation is recorded as proved in baseline/ledger.json)\nsolver: %s %.2fs\n", ob.Status, ob.Solver, ob.Seconds)
	if ob.Kind == "ground" && ob.Status == "refuted" {
		fmt.Fprintf(&b, "failing-input: the schema constant extracted from the working tree (see output below); replay: /verif/check %s quick re-extracts and re-evaluates it\n", prop)
	} else {
		fmt.Fprintf(&b, "failing-input: none from the solver (no-failing-input-found unless a section `failing input found on the real code` follows)\n")
	}
	fmt.Fprintf(&b, "--- solver output ---\n%s\n", firstLines(ob.Output, 200))
	if ob.File != "" {
		if q, err := os.ReadFile(ob.File); err == nil {
			fmt.Fprintf(&b, "--- SMT-LIB query (re-run: z3-new -T:60 <file>) ---\n%s\n", string(q))
		}
	}
	os.WriteFile(p, []byte(b.String()), 0o644)
	return p
}

// outRoot: where evidence and replay files go (GOCV_OUT redirects them, so that
// seeded-change runs against a scratch copy do not overwrite /verif/evidence).
func outRoot(opts *RunOpts) string {
	if d := os.Getenv("GOCV_OUT"); d != "" {
		return d
	}
	return opts.Verif
}

func appendReplay(path, text string) {
	f, err := os.OpenFile(path, os.O_APPEND|os.O_WRONLY, 0o644)
	if err != nil {
		return
	}
	defer f.Close()
	f.WriteString(text)
}

// boundedListVerdict: verdict of a bounded stand-in that returns the failing
// cases of a finite family. Cases listed in the committed baseline file (and
// backed by a known finding whose witness still reproduces) are known; any
// other failing case is a violation with its concrete input.
func boundedListVerdict(opts *RunOpts, prop string, known []KnownFinding, obl, baseFile string, failing []string, total int, family, knownWhat, violWhat string, classKnown func(string) bool) (knownLine, violLine string, cov map[string]any) {
	knownSet := map[string]bool{}
	if b, err := os.ReadFile(filepath.Join(opts.Verif, "baseline", baseFile)); err == nil {
		for _, l := range strings.Split(string(b), "\n") {
			if l = strings.TrimSpace(l); l != "" && !strings.HasPrefix(l, "#") {
				knownSet[l] = true
			}
		}
	}
	if kf := findKnown(known, prop, obl); kf == nil {
		knownSet = map[string]bool{}
	} else if ok, _ := runWitness(opts, kf); !ok {
		knownSet = map[string]bool{}
	}
	if d := os.Getenv("GOCV_DUMP_BOUNDED"); d != "" {
		// maintenance only (never set by a registered command): dump the failing keys
		var keys []string
		for _, f := range failing {
			key := f
			if i := strings.Index(f, " => "); i >= 0 {
				key = f[:i]
			}
			keys = append(keys, key)
		}
		os.WriteFile(filepath.Join(d, baseFile), []byte(strings.Join(keys, "\n")+"\n"), 0o644)
	}
	var fresh []string
	stillKnown := 0
	for _, f := range failing {
		key := f
		if i := strings.Index(f, " => "); i >= 0 {
			key = f[:i]
		}
		if knownSet[key] || (len(knownSet) > 0 && classKnown != nil && classKnown(f)) {
			stillKnown++
		} else {
			fresh = append(fresh, f)
		}
	}
	if stillKnown > 0 {
		knownLine = fmt.Sprintf("KNOWN-FINDING: property=%s %s: %d of the %d cases of the bounded family (listed one by one in baseline/%s) [%s]", prop, knownWhat, stillKnown, total, baseFile, obl)
	}
	if len(fresh) > 0 {
		dir := filepath.Join(outRoot(opts), "replays", prop)
		os.MkdirAll(dir, 0o755)
		rp := filepath.Join(dir, sanitize(obl)+".replay.txt")
		shown := fresh
		if len(shown) > 200 {
			shown = shown[:200]
		}
		os.WriteFile(rp, []byte(fmt.Sprintf("property: %s\nobligation: %s\nkind: bounded stand-in on the real machine: %s (%d cases)\nfailing-inputs (case => outcome (violated clause)), not among the recorded known ones (%d, first %d shown):\n%s\n", prop, obl, family, total, len(fresh), len(shown), strings.Join(shown, "\n"))), 0o644)
		violLine = fmt.Sprintf("VIOLATION property=%s replay=%s obligation=%s %d case(s) of the bounded family %s, e.g. %s", prop, rp, obl, len(fresh), violWhat, fresh[0])
	}
	cov = map[string]any{"family": family, "cases": total, "failing_known": stillKnown, "failing_new": len(fresh), "label": "bounded"}
	return
}

// c02ResurrectionClass: the recorded known finding of C02 for schemas with more
// than three relations (the cases with up to three are listed one by one): a
// Remove-consistency failure "X and Y active, Y removes X" where X is the Add
// target of a state that is active in the outcome (X was re-added through Add), or
// the remover Y is (it was activated through Add after X had been kept).
func c02ResurrectionClass(f string) bool {
	i := strings.Index(f, "(remove: ")
	if i < 0 || !strings.HasPrefix(f, "[") {
		return false
	}
	rels := strings.Fields(f[1:strings.Index(f, "]")])
	if len(rels) <= 3 {
		return false // listed individually
	}
	w := strings.Fields(f[i+len("(remove: "):])
	if len(w) < 1 {
		return false
	}
	x := w[0]
	y := ""
	if len(w) >= 3 {
		y = w[2] // "X and Y active, Y removes X"
	}
	k := strings.Index(f, "=> {")
	if k < 0 {
		return false
	}
	after := strings.Split(f[k+4:strings.Index(f[k:], "}")+k], ",")
	for _, r := range rels {
		// the removed state X, or the remover Y, was (re-)activated through an Add relation of an active state
		if len(r) == 3 && r[1] == '+' && (string(r[2]) == x || string(r[2]) == y) {
			for _, a := range after {
				if a == string(r[0]) {
					return true
				}
			}
		}
	}
	return false
}

// keepStandin writes the generated stand-in program to $GOCV_KEEP_STANDIN (maintenance
// only; never set by a registered command).
func keepStandin(name, src string) {
	if d := os.Getenv("GOCV_KEEP_STANDIN"); d != "" {
		os.WriteFile(filepath.Join(d, name+"_main.go"), []byte(src), 0o644)
	}
}

// fragileProof: the baseline proof was found only with a non-default random seed, or
// took more than 3 s of the solver budget.
func fragileProof(le LedgerEntry) bool {
	if strings.Contains(le.Solver, "/seed") {
		return true // only a non-default random seed found the proof
	}
	return le.Seconds > 3.0
}
