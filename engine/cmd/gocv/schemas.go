package main

// C19: extraction of the shipped schema constants. A program is generated on
// every run from a go/types scan of the working tree (so new schemas are
// included) and executed through `go run -overlay`: evaluating a package-level
// initialiser is running the real code that defines the constant, nothing is
// transcribed.

import (
	"bytes"
	"context"
	"encoding/json"
	"fmt"
	"go/types"
	"os"
	"os/exec"
	"path/filepath"
	"sort"
	"strings"
	"time"

	"golang.org/x/tools/go/packages"
)

type DumpState struct {
	Auto, Multi                  bool
	Require, Add, Remove, After []string
}

type DumpSchema struct {
	Pkg    string               `json:"pkg"`
	Name   string               `json:"name"`
	States map[string]DumpState `json:"states"`
}

type DumpNames struct {
	Pkg   string   `json:"pkg"`
	Name  string   `json:"name"`
	Names []string `json:"names"`
}

type DumpGroups struct {
	Pkg    string              `json:"pkg"`
	Name   string              `json:"name"`
	Groups map[string][]string `json:"groups"`
}

type SchemaDump struct {
	Schemas []DumpSchema `json:"schemas"`
	Names   []DumpNames  `json:"names"`
	Groups  []DumpGroups `json:"groups"`
	Mutated []string     `json:"mutated"` // constants that changed after a machine was created from them
}

const machinePkg = repoModule + "/pkg/machine"

func isSchemaType(t types.Type) bool {
	n, ok := types.Unalias(t).(*types.Named)
	return ok && n.Obj().Pkg() != nil && n.Obj().Pkg().Path() == machinePkg && n.Obj().Name() == "Schema"
}

func isSType(t types.Type) bool {
	n, ok := types.Unalias(t).(*types.Named)
	if ok && n.Obj().Pkg() != nil && n.Obj().Pkg().Path() == machinePkg && n.Obj().Name() == "S" {
		return true
	}
	return false
}

// hasNamesMethod: typed state-name lists embed *am.StatesBase (method Names() S).
func hasNamesMethod(t types.Type) bool {
	ms := types.NewMethodSet(t)
	for i := 0; i < ms.Len(); i++ {
		if ms.At(i).Obj().Name() == "Names" {
			if sig, ok := ms.At(i).Obj().Type().(*types.Signature); ok && sig.Params().Len() == 0 && sig.Results().Len() == 1 && isSType(sig.Results().At(0).Type()) {
				return true
			}
		}
	}
	return false
}

// isGroupsStruct: struct (possibly with embedded group structs) whose leaf fields are am.S.
func isGroupsStruct(t types.Type) bool {
	st, ok := types.Unalias(t).Underlying().(*types.Struct)
	if !ok || st.NumFields() == 0 {
		return false
	}
	anyS := false
	for i := 0; i < st.NumFields(); i++ {
		f := st.Field(i)
		ft := f.Type()
		if p, ok := ft.(*types.Pointer); ok {
			ft = p.Elem()
		}
		if isSType(ft) {
			anyS = true
			continue
		}
		if f.Embedded() && isGroupsStruct(ft) {
			anyS = true
			continue
		}
		return false
	}
	return anyS
}

var schemaPkgPatterns = []string{
	"./pkg/states", "./pkg/rpc/states", "./pkg/node/states", "./pkg/pubsub/states",
	"./tools/debugger/states", "./tools/repl/states", "./tools/relay/states", "./tools/generator/states", "./tools/visualizer/states",
	"./examples/mach_template/states", "./examples/basic/states", "./examples/cli/states", "./examples/cli_daemon/states",
	"./examples/arpc/states", "./examples/repl/states", "./examples/tui/states", "./examples/nfa/states",
	"./examples/tree_state_source/states", "./examples/benchmark_grpc/states", "./examples/path_watcher/states",
	"./examples/temporal_expense/states", "./examples/temporal_fileprocessing/states",
}

func extractSchemas(opts *RunOpts) (*SchemaDump, []string, error) {
	cfg := &packages.Config{
		Mode: packages.NeedName | packages.NeedTypes | packages.NeedFiles,
		Dir:  opts.Repo,
		Env:  append(os.Environ(), "GOFLAGS=-mod=mod", "GOPROXY=off"),
	}
	var pats []string
	for _, p := range schemaPkgPatterns {
		if _, err := os.Stat(filepath.Join(opts.Repo, p)); err == nil {
			pats = append(pats, p)
		}
	}
	pkgs, err := packages.Load(cfg, pats...)
	if err != nil {
		return nil, nil, err
	}
	var notes []string
	var b bytes.Buffer
	b.WriteString("package main\n\nimport (\n\t\"context\"\n\t\"encoding/json\"\n\t\"os\"\n\t\"reflect\"\n\tam \"" + machinePkg + "\"\n")
	type item struct{ alias, pkg, name, kind string }
	var items []item
	sort.Slice(pkgs, func(i, j int) bool { return pkgs[i].PkgPath < pkgs[j].PkgPath })
	for i, p := range pkgs {
		if len(p.Errors) > 0 || p.Types == nil {
			notes = append(notes, fmt.Sprintf("package %s skipped: does not type-check", p.PkgPath))
			continue
		}
		alias := fmt.Sprintf("p%d", i)
		used := false
		sc := p.Types.Scope()
		for _, n := range sc.Names() {
			v, ok := sc.Lookup(n).(*types.Var)
			if !ok || !v.Exported() {
				continue
			}
			switch {
			case isSchemaType(v.Type()):
				items = append(items, item{alias, p.PkgPath, n, "schema"})
				used = true
			case hasNamesMethod(v.Type()):
				items = append(items, item{alias, p.PkgPath, n, "names"})
				used = true
			case isGroupsStruct(v.Type()):
				items = append(items, item{alias, p.PkgPath, n, "groups"})
				used = true
			}
		}
		if used {
			fmt.Fprintf(&b, "\t%s %q\n", alias, p.PkgPath)
		}
	}
	b.WriteString(")\n\n")
	b.WriteString(`type st struct{ Auto, Multi bool; Require, Add, Remove, After []string }
type sch struct{ Pkg, Name string; States map[string]st }
type nm struct{ Pkg, Name string; Names []string }
type gr struct{ Pkg, Name string; Groups map[string][]string }

func schema(pkg, name string, s am.Schema) sch {
	out := sch{Pkg: pkg, Name: name, States: map[string]st{}}
	for k, v := range s {
		out.States[k] = st{v.Auto, v.Multi, v.Require, v.Add, v.Remove, v.After}
	}
	return out
}

func groups(pkg, name string, g any) gr {
	out := gr{Pkg: pkg, Name: name, Groups: map[string][]string{}}
	var walk func(v reflect.Value)
	walk = func(v reflect.Value) {
		for v.Kind() == reflect.Pointer {
			if v.IsNil() {
				return
			}
			v = v.Elem()
		}
		if v.Kind() != reflect.Struct {
			return
		}
		for i := 0; i < v.NumField(); i++ {
			f := v.Field(i)
			ft := v.Type().Field(i)
			if f.Kind() == reflect.Slice && f.Type().Elem().Kind() == reflect.String {
				var names []string
				for j := 0; j < f.Len(); j++ {
					names = append(names, f.Index(j).String())
				}
				if _, dup := out.Groups[ft.Name]; !dup {
					out.Groups[ft.Name] = names
				}
			} else if ft.Anonymous {
				walk(f)
			}
		}
	}
	walk(reflect.ValueOf(g))
	return out
}

func main() {
	var schemas []sch
	var names []nm
	var grs []gr
`)
	for _, it := range items {
		switch it.kind {
		case "schema":
			fmt.Fprintf(&b, "\tschemas = append(schemas, schema(%q, %q, %s.%s))\n", it.pkg, it.name, it.alias, it.name)
		case "names":
			fmt.Fprintf(&b, "\tnames = append(names, nm{%q, %q, %s.%s.Names()})\n", it.pkg, it.name, it.alias, it.name)
		case "groups":
			fmt.Fprintf(&b, "\tgrs = append(grs, groups(%q, %q, %s.%s))\n", it.pkg, it.name, it.alias, it.name)
		}
	}
	// using a shipped schema must not change it: create a machine from every schema
	// constant (this runs Schema.Parse on it) and dump everything again
	b.WriteString("\tfirst, _ := json.Marshal(map[string]any{\"schemas\": schemas, \"groups\": grs})\n")
	b.WriteString("\tuse := func(s am.Schema) {\n\t\tdefer func() { recover() }()\n\t\tctx, cancel := context.WithCancel(context.Background())\n\t\tdefer cancel()\n\t\tam.New(ctx, s, nil)\n\t}\n")
	for _, it := range items {
		if it.kind == "schema" {
			fmt.Fprintf(&b, "\tuse(%s.%s)\n", it.alias, it.name)
		}
	}
	b.WriteString("\tvar schemas2 []sch\n\tvar grs2 []gr\n")
	for _, it := range items {
		switch it.kind {
		case "schema":
			fmt.Fprintf(&b, "\tschemas2 = append(schemas2, schema(%q, %q, %s.%s))\n", it.pkg, it.name, it.alias, it.name)
		case "groups":
			fmt.Fprintf(&b, "\tgrs2 = append(grs2, groups(%q, %q, %s.%s))\n", it.pkg, it.name, it.alias, it.name)
		}
	}
	b.WriteString("\tvar mutated []string\n\tfor i := range schemas {\n\t\ta, _ := json.Marshal(schemas[i])\n\t\tb2, _ := json.Marshal(schemas2[i])\n\t\tif string(a) != string(b2) {\n\t\t\tmutated = append(mutated, schemas[i].Pkg+\".\"+schemas[i].Name+\": \"+string(a)+\" became \"+string(b2))\n\t\t}\n\t}\n")
	b.WriteString("\tfor i := range grs {\n\t\ta, _ := json.Marshal(grs[i])\n\t\tb2, _ := json.Marshal(grs2[i])\n\t\tif string(a) != string(b2) {\n\t\t\tmutated = append(mutated, grs[i].Pkg+\".\"+grs[i].Name+\": \"+string(a)+\" became \"+string(b2))\n\t\t}\n\t}\n\t_ = first\n")
	b.WriteString("\tjson.NewEncoder(os.Stdout).Encode(map[string]any{\"schemas\": schemas, \"names\": names, \"groups\": grs, \"mutated\": mutated})\n}\n")

	tmp, err := os.MkdirTemp("", "gocv-schemas-")
	if err != nil {
		return nil, notes, err
	}
	defer os.RemoveAll(tmp)
	src := filepath.Join(tmp, "main.go")
	os.WriteFile(src, b.Bytes(), 0o644)
	virt := filepath.Join(opts.Repo, "internal", "zz_verif_schemadump", "main.go")
	ov, _ := json.Marshal(map[string]any{"Replace": map[string]string{virt: src}})
	ovf := filepath.Join(tmp, "ov.json")
	os.WriteFile(ovf, ov, 0o644)
	ctx, cancel := context.WithTimeout(context.Background(), 5*time.Minute)
	defer cancel()
	cmd := exec.CommandContext(ctx, "go", "run", "-overlay", ovf, "./internal/zz_verif_schemadump")
	cmd.Dir = opts.Repo
	cmd.Env = append(os.Environ(), "GOFLAGS=-mod=mod", "GOPROXY=off")
	var out, errb bytes.Buffer
	cmd.Stdout = &out
	cmd.Stderr = &errb
	if err := cmd.Run(); err != nil {
		return nil, notes, fmt.Errorf("schema dump program failed: %v: %s", err, firstLines(errb.String(), 10))
	}
	var raw struct {
		Schemas []struct {
			Pkg, Name string
			States    map[string]DumpState
		}
		Names []struct {
			Pkg, Name string
			Names     []string
		}
		Groups []struct {
			Pkg, Name string
			Groups    map[string][]string
		}
		Mutated []string
	}
	if err := json.Unmarshal(out.Bytes(), &raw); err != nil {
		return nil, notes, fmt.Errorf("schema dump output: %v", err)
	}
	d := &SchemaDump{}
	for _, s := range raw.Schemas {
		d.Schemas = append(d.Schemas, DumpSchema{s.Pkg, s.Name, s.States})
	}
	for _, n := range raw.Names {
		d.Names = append(d.Names, DumpNames{n.Pkg, n.Name, n.Names})
	}
	for _, g := range raw.Groups {
		d.Groups = append(d.Groups, DumpGroups{g.Pkg, g.Name, g.Groups})
	}
	d.Mutated = raw.Mutated
	return d, notes, nil
}

func schemasCmd(opts *RunOpts) int {
	d, notes, err := extractSchemas(opts)
	if err != nil {
		fmt.Fprintln(os.Stderr, err)
		return 2
	}
	if os.Getenv("GOCV_JSON") != "" {
		b, _ := json.Marshal(d)
		fmt.Println(string(b))
		return 0
	}
	for _, n := range notes {
		fmt.Println("note:", n)
	}
	for _, s := range d.Schemas {
		fmt.Printf("schema %s.%s: %d states\n", shortName(s.Pkg), s.Name, len(s.States))
	}
	for _, n := range d.Names {
		fmt.Printf("names  %s.%s: %d\n", shortName(n.Pkg), n.Name, len(n.Names))
	}
	for _, g := range d.Groups {
		var ks []string
		for k, v := range g.Groups {
			ks = append(ks, fmt.Sprintf("%s(%d)", k, len(v)))
		}
		sort.Strings(ks)
		fmt.Printf("groups %s.%s: %s\n", shortName(g.Pkg), g.Name, strings.Join(ks, " "))
	}
	return 0
}
