package main

// Counterexample search on the real code (DESIGN 2.7/2.9, restricted form).
//
// When an obligation of a function that was proved on the baseline tree fails,
// and the function's parameters and results are plain values (strings, booleans,
// integers, slices of those - including named slice types such as S and Time,
// also as a value receiver), the check does not stop at "the proof failed": it
// enumerates small inputs, runs the REAL function in an in-package test injected
// with `go test -overlay`, and evaluates the contract's requires / ensures
// clauses on the observed inputs and outputs with the concrete evaluator
// (concrete.go). An input that satisfies the preconditions and falsifies a
// postcondition (or panics) is a failing input on the real code: the VIOLATION
// line then carries it and the replay file contains a runnable test.
//
// Nothing here decides a property by itself: it only turns an already failed
// proof into a replayed counterexample (or leaves it at no-failing-input-found).

import (
	"bytes"
	"context"
	"encoding/json"
	"fmt"
	"go/types"
	"os"
	"os/exec"
	"path/filepath"
	"sort"
	"strings"
	"time"
)

type Cex struct {
	Func     string
	Clause   string // label of the falsified ensures clause, or "panic"
	Inputs   map[string]any
	Outputs  map[string]any
	PanicMsg string
	TestSrc  string
	Explored int
}

// plainKind classifies a type usable by the search: "string","bool","int","uint", "[]"+elem.
func plainKind(t types.Type) string {
	t = types.Unalias(t)
	if tp, ok := t.(*types.TypeParam); ok {
		if u := coreType(tp); u != nil {
			if sl, ok := u.(*types.Slice); ok {
				if k := plainKind(sl.Elem()); k == "string" {
					return "[]string"
				}
				return ""
			}
		}
		// bare element type parameter: instantiate with string
		return "string"
	}
	switch u := t.Underlying().(type) {
	case *types.Basic:
		switch {
		case u.Info()&types.IsString != 0:
			return "string"
		case u.Info()&types.IsBoolean != 0:
			return "bool"
		case u.Info()&types.IsUnsigned != 0:
			return "uint"
		case u.Info()&types.IsInteger != 0:
			return "int"
		}
	case *types.Slice:
		k := plainKind(u.Elem())
		if k == "string" || k == "int" || k == "uint" || k == "bool" {
			return "[]" + k
		}
	}
	return ""
}

func goTypeText(t types.Type, pkg *types.Package) string {
	if _, ok := types.Unalias(t).(*types.TypeParam); ok {
		k := plainKind(t)
		return k
	}
	return types.TypeString(t, func(p *types.Package) string {
		if p == pkg {
			return ""
		}
		return p.Name()
	})
}

func domainLits(kind string, small bool) []string {
	switch kind {
	case "string":
		return []string{`"A"`, `"B"`, `"C"`}
	case "bool":
		return []string{"false", "true"}
	case "int":
		return []string{"0", "1", "2", "-1"}
	case "uint":
		return []string{"0", "1", "2", "3", "255", "256"}
	}
	if strings.HasPrefix(kind, "[]") {
		el := domainLits(kind[2:], true)
		if kind[2:] == "int" || kind[2:] == "uint" {
			el = el[:3]
		}
		maxLen := 3
		if small {
			maxLen = 2
		}
		out := []string{"nil", "{}"} // nil and the empty non-nil slice are different inputs
		var rec func(prefix []string)
		rec = func(prefix []string) {
			if len(prefix) > 0 {
				out = append(out, "{"+strings.Join(prefix, ", ")+"}")
			}
			if len(prefix) == maxLen {
				return
			}
			for _, e := range el {
				rec(append(append([]string{}, prefix...), e))
			}
		}
		rec(nil)
		return out
	}
	return nil
}

// searchCounterexample returns a failing input of the real function for the
// given contract, or nil. why explains a nil result.
func (w *World) searchCounterexample(opts *RunOpts, c *Contract) (cex *Cex, why string) {
	if c.IsLemma || c.Trusted || len(c.Mutates) > 0 || len(c.Closes) > 0 || len(c.GhostSets) > 0 {
		return nil, "not a plain function contract"
	}
	d := w.declsByName[c.Key()]
	if d == nil || d.decl.Body == nil {
		return nil, "no declaration"
	}
	obj, _ := d.pkg.TypesInfo.Defs[d.decl.Name].(*types.Func)
	if obj == nil {
		return nil, "no type information"
	}
	sig := obj.Type().(*types.Signature)
	var params []prm
	pnames := c.Params
	pi := 0
	machRecv := ""
	if sig.Recv() != nil {
		k := plainKind(sig.Recv().Type())
		if n := namedOf(sig.Recv().Type()); n != nil && isPointer(sig.Recv().Type()) && n.Obj().Name() == "Machine" && n.Obj().Pkg() != nil && n.Obj().Pkg().Path() == machinePkg && d.pkg.PkgPath == machinePkg {
			// a reader of the machine: the receiver ranges over small real machines
			if len(pnames) == 0 {
				return nil, "contract header without receiver name"
			}
			machRecv = pnames[0]
			pi = 1
		} else {
			if k == "" || isPointer(sig.Recv().Type()) {
				return nil, "receiver is not a plain value"
			}
			if len(pnames) == 0 {
				return nil, "contract header without receiver name"
			}
			params = append(params, prm{pnames[0], k, goTypeText(sig.Recv().Type(), d.pkg.Types)})
			pi = 1
		}
	}
	if machRecv != "" && (c.HasAssigns || c.AssignsAll) {
		for _, a := range c.Assigns {
			if sel, ok := a.(SSel); !ok || !strings.HasSuffix(sel.Sel, "Mx") {
				return nil, "the machine method assigns machine state"
			}
		}
	}
	for i := 0; i < sig.Params().Len(); i++ {
		p := sig.Params().At(i)
		k := plainKind(p.Type())
		if sig.Variadic() && i == sig.Params().Len()-1 {
			k = ""
			if sl, ok := p.Type().(*types.Slice); ok && plainKind(sl.Elem()) == "[]string" {
				k = "...[]string"
			}
		}
		if k == "" {
			return nil, fmt.Sprintf("parameter %s is not a plain value", p.Name())
		}
		name := p.Name()
		if pi+i < len(pnames) {
			name = pnames[pi+i]
		}
		params = append(params, prm{name, k, goTypeText(p.Type(), d.pkg.Types)})
	}
	for i := 0; i < sig.Results().Len(); i++ {
		if plainKind(sig.Results().At(i).Type()) == "" {
			return nil, "result is not a plain value"
		}
	}
	if (len(params) == 0 && machRecv == "") || len(params) > 7 {
		return nil, "no parameters or more than seven"
	}
	// four to seven parameters: tiny domains, so that the product stays small
	tiny := len(params) > 3
	// generated in-package test
	var b bytes.Buffer
	pkgName := d.pkg.Types.Name()
	fmt.Fprintf(&b, "package %s\n\nimport (\n\t\"context\"\n\t\"encoding/json\"\n\t\"fmt\"\n\t\"os\"\n\t\"testing\"\n)\n\nvar _ = context.Background\n\n", pkgName)
	fmt.Fprintf(&b, "func TestVerifSearchCex(t *testing.T) {\n\tenc := json.NewEncoder(os.Stdout)\n\t_ = enc\n\tn := 0\n")
	for i, p := range params {
		if p.kind == "...[]string" {
			el := strings.TrimPrefix(p.gotype, "[]")
			groups := []string{el + "(nil)", el + "{}", el + `{"A"}`, el + `{"B"}`, el + `{"A", "B"}`, el + `{"B", "A"}`, el + `{"C"}`}
			vals := []string{p.gotype + "{}"}
			for _, g1 := range groups {
				vals = append(vals, p.gotype+"{"+g1+"}")
				for _, g2 := range groups {
					vals = append(vals, p.gotype+"{"+g1+", "+g2+"}")
				}
			}
			fmt.Fprintf(&b, "\tdom%d := []%s{%s}\n", i, p.gotype, strings.Join(vals, ", "))
			continue
		}
		lits := domainLits(p.kind, len(params) > 1)
		if tiny {
			switch {
			case p.kind == "int" || p.kind == "uint":
				lits = []string{"0", "1", "2"}
			case p.kind == "string":
				lits = []string{`"A"`, `"B"`}
			case strings.HasPrefix(p.kind, "[]"):
				el := domainLits(p.kind[2:], true)
				lits = []string{"nil", "{" + el[0] + "}", "{" + el[0] + ", " + el[1] + "}"}
			}
		}
		var vals []string
		for _, l := range lits {
			if strings.HasPrefix(p.kind, "[]") {
				if l == "nil" {
					vals = append(vals, fmt.Sprintf("%s(nil)", p.gotype))
				} else {
					vals = append(vals, p.gotype+l)
				}
			} else {
				vals = append(vals, fmt.Sprintf("%s(%s)", p.gotype, l))
			}
		}
		fmt.Fprintf(&b, "\tdom%d := []%s{%s}\n", i, p.gotype, strings.Join(vals, ", "))
	}
	if machRecv != "" {
		b.WriteString("\tfor mask := 0; mask < 16; mask++ {\n\tctxM, cancelM := context.WithCancel(context.Background())\n\tmM := New(ctxM, Schema{\"A\": {}, \"B\": {}, \"C\": {Multi: true}}, nil)\n" +
			"\tfor bi, nm := range []string{\"A\", \"B\", \"C\"} {\n\t\tif mask&(1<<bi) != 0 { mM.Add1(nm, nil) }\n\t}\n" +
			"\tif mask&8 != 0 { mM.Add1(\"C\", nil); mM.Remove1(\"A\", nil) }\n" +
			"\tclk := map[string]any{}\n\tfor k, v := range mM.clock { clk[k] = v }\n" +
			"\tmdump := map[string]any{\"activeStates\": append([]string{}, mM.activeStates...), \"stateNames\": append([]string{}, mM.stateNames...), \"clock\": clk, \"disposing\": mM.disposing.Load(), \"disposed\": mM.disposed.Load()}\n")
	}
	for i := range params {
		fmt.Fprintf(&b, "\tfor _, a%d := range dom%d {\n", i, i)
	}
	// copies of slice inputs (the function must not be able to spoil the record)
	var callArgs, recArgs []string
	for i, p := range params {
		if p.kind == "...[]string" {
			callArgs = append(callArgs, fmt.Sprintf("a%d...", i))
		} else if strings.HasPrefix(p.kind, "[]") {
			fmt.Fprintf(&b, "\tvar c%d %s\n\tif a%d != nil { c%d = append(%s{}, a%d...) }\n", i, p.gotype, i, i, p.gotype, i)
			callArgs = append(callArgs, fmt.Sprintf("c%d", i))
		} else {
			callArgs = append(callArgs, fmt.Sprintf("a%d", i))
		}
		recArgs = append(recArgs, fmt.Sprintf("%q: a%d", p.name, i))
	}
	call := ""
	if machRecv != "" {
		call = fmt.Sprintf("mM.%s(%s)", d.decl.Name.Name, strings.Join(callArgs, ", "))
		recArgs = append(recArgs, fmt.Sprintf("%q: mdump", machRecv))
	} else if sig.Recv() != nil {
		call = fmt.Sprintf("%s.%s(%s)", callArgs[0], d.decl.Name.Name, strings.Join(callArgs[1:], ", "))
	} else {
		call = fmt.Sprintf("%s(%s)", d.decl.Name.Name, strings.Join(callArgs, ", "))
	}
	var resNames []string
	for i := 0; i < sig.Results().Len(); i++ {
		resNames = append(resNames, fmt.Sprintf("r%d", i))
	}
	fmt.Fprintf(&b, "\tn++\n\tif n > 40000 { continue }\n\tfunc() {\n\t\trec := map[string]any{\"in\": map[string]any{%s}}\n", strings.Join(recArgs, ", "))
	fmt.Fprintf(&b, "\t\tdefer func() {\n\t\t\tif p := recover(); p != nil { rec[\"panic\"] = fmt.Sprint(p) }\n\t\t\tb, _ := json.Marshal(rec)\n\t\t\tfmt.Fprintln(os.Stdout, \"@@\"+string(b))\n\t\t}()\n")
	if len(resNames) > 0 {
		fmt.Fprintf(&b, "\t\t%s := %s\n", strings.Join(resNames, ", "), call)
		var outs []string
		for i, rn := range resNames {
			name := fmt.Sprintf("r%d", i)
			if i < len(c.Results) && c.Results[i] != "" && c.Results[i] != "_" {
				name = c.Results[i]
			}
			outs = append(outs, fmt.Sprintf("%q: %s", name, rn))
		}
		fmt.Fprintf(&b, "\t\trec[\"out\"] = map[string]any{%s}\n", strings.Join(outs, ", "))
	} else {
		fmt.Fprintf(&b, "\t\t%s\n", call)
	}
	fmt.Fprintf(&b, "\t}()\n")
	for range params {
		b.WriteString("\t}\n")
	}
	if machRecv != "" {
		b.WriteString("\tcancelM()\n\t}\n")
	}
	b.WriteString("}\n")

	tmp, err := os.MkdirTemp("", "gocv-cex-")
	if err != nil {
		return nil, err.Error()
	}
	defer os.RemoveAll(tmp)
	src := filepath.Join(tmp, "t_test.go")
	os.WriteFile(src, b.Bytes(), 0o644)
	rel, _ := filepath.Rel(opts.Repo, filepath.Dir(w.fset.Position(d.decl.Pos()).Filename))
	target := filepath.Join(opts.Repo, rel, "zz_verif_search_cex_test.go")
	ov, _ := json.Marshal(map[string]any{"Replace": map[string]string{target: src}})
	ovf := filepath.Join(tmp, "ov.json")
	os.WriteFile(ovf, ov, 0o644)
	ctx, cancel := context.WithTimeout(context.Background(), 180*time.Second)
	defer cancel()
	cmd := exec.CommandContext(ctx, "go", "test", "-v", "-overlay", ovf, "-vet=off", "-timeout", "120s", "-count=1", "-run", "^TestVerifSearchCex$", "./"+rel)
	cmd.Dir = opts.Repo
	cmd.Env = append(os.Environ(), "GOFLAGS=-mod=mod", "GOPROXY=off")
	var out bytes.Buffer
	cmd.Stdout = &out
	cmd.Stderr = &out
	cmd.Run()
	explored := 0
	for _, line := range strings.Split(out.String(), "\n") {
		if !strings.HasPrefix(line, "@@") {
			continue
		}
		var rec struct {
			In    map[string]any `json:"in"`
			Out   map[string]any `json:"out"`
			Panic string         `json:"panic"`
		}
		if json.Unmarshal([]byte(line[2:]), &rec) != nil {
			continue
		}
		explored++
		env := &cEnv{w: w, names: map[string]any{}, maxInt: 4}
		uni := map[string]bool{"A": true, "B": true, "C": true, "\x00fresh": true}
		for k, v := range rec.In {
			env.names[k] = jsonToC(v, uni)
		}
		for k, v := range rec.Out {
			env.names[k] = jsonToC(v, uni)
		}
		for s := range uni {
			env.strs = append(env.strs, s)
		}
		sort.Strings(env.strs)
		for _, v := range env.names {
			if s, ok := v.([]any); ok && len(s)+1 > env.maxInt {
				env.maxInt = len(s) + 1
			}
		}
		preOK := true
		for _, r := range c.Requires {
			ok, e := cEvalBool(env, r.Expr)
			if e == "" && !ok {
				// (clauses the concrete evaluator cannot decide - lock state, memory
				// identity - hold by construction of the generated inputs)
				preOK = false
			}
		}
		if !preOK {
			continue
		}
		mk := func(clause string) *Cex {
			x := &Cex{Func: c.Key(), Clause: clause, Inputs: rec.In, Outputs: rec.Out, PanicMsg: rec.Panic, Explored: explored}
			if machRecv != "" {
				act, _ := json.Marshal(rec.In[machRecv].(map[string]any)["activeStates"])
				x.TestSrc = fmt.Sprintf("// machine: New(ctx, Schema{\"A\": {}, \"B\": {}, \"C\": {Multi: true}}, nil) brought to the active states %s by Add/Remove (clock in the inputs above);\n// call: m.%s(%s)\n", string(act), d.decl.Name.Name, strings.Join(paramsToLits(params, rec.In), ", "))
				return x
			}
			x.TestSrc = replayTestSource(pkgName, d.decl.Name.Name, sig.Recv() != nil, paramsToLits(params, rec.In), clause, rec.Out, rec.Panic, sig.Results().Len())
			return x
		}
		if rec.Panic != "" {
			isAllowed := false
			for _, a := range c.Abstracts {
				if strings.HasPrefix(a, "panics") {
					isAllowed = true
				}
			}
			if !isAllowed {
				return mk("panic"), ""
			}
			continue
		}
		for _, e := range c.Ensures {
			ok, er := cEvalBool(env, e.Expr)
			if er == "" && !ok {
				return mk(e.Label), ""
			}
		}
	}
	if explored == 0 {
		return nil, "the search program produced no records: " + firstLines(out.String(), 6)
	}
	return nil, fmt.Sprintf("no failing input among %d small inputs", explored)
}

type prm struct{ name, kind, gotype string }

func paramsToLits(ps []prm, in map[string]any) []string {
	var out []string
	for _, p := range ps {
		out = append(out, goLit(p.gotype, p.kind, in[p.name]))
	}
	return out
}

func goLit(gotype, kind string, v any) string {
	if kind == "...[]string" {
		var gs []string
		if l, ok := v.([]any); ok {
			for _, g := range l {
				gs = append(gs, goLit(strings.TrimPrefix(gotype, "[]"), "[]string", g))
			}
		}
		return strings.Join(gs, ", ")
	}
	switch x := v.(type) {
	case nil:
		return gotype + "(nil)"
	case []any:
		var el []string
		for _, e := range x {
			el = append(el, goLit("", kind[2:], e))
		}
		return gotype + "{" + strings.Join(el, ", ") + "}"
	case string:
		if gotype != "" {
			return fmt.Sprintf("%s(%q)", gotype, x)
		}
		return fmt.Sprintf("%q", x)
	case bool:
		return fmt.Sprint(x)
	case float64:
		if gotype != "" {
			return fmt.Sprintf("%s(%d)", gotype, int64(x))
		}
		return fmt.Sprint(int64(x))
	}
	return fmt.Sprint(v)
}

func replayTestSource(pkg, fn string, method bool, lits []string, clause string, out map[string]any, panicMsg string, nres int) string {
	call := fn + "(" + strings.Join(lits, ", ") + ")"
	if method && len(lits) > 0 {
		call = lits[0] + "." + fn + "(" + strings.Join(lits[1:], ", ") + ")"
	}
	ob, _ := json.Marshal(out)
	obs := "results " + string(ob)
	if panicMsg != "" {
		obs = "panic: " + panicMsg
	}
	body := "\t" + call + "\n"
	if nres > 0 {
		var rs []string
		for i := 0; i < nres; i++ {
			rs = append(rs, fmt.Sprintf("r%d", i))
		}
		body = "\t" + strings.Join(rs, ", ") + " := " + call + "\n\tt.Log(" + strings.Join(rs, ", ") + ")\n"
	}
	return fmt.Sprintf("package %s\n\nimport \"testing\"\n\n// Replay of a failing input found on the real code: contract clause %q is false for it.\n// Observed on the checked tree: %s\nfunc TestVerifReplay(t *testing.T) {\n%s}\n", pkg, clause, obs, body)
}

func jsonToC(v any, uni map[string]bool) any {
	switch x := v.(type) {
	case map[string]any:
		if _, isMach := x["activeStates"]; isMach {
			st := cStruct{}
			for k, e := range x {
				if k == "clock" {
					cm := &cMap{m: map[string]any{}, def: 0}
					if mm, ok := e.(map[string]any); ok {
						for kk, vv := range mm {
							uni[kk] = true
							cm.m[kk] = jsonToC(vv, uni)
						}
					}
					st[k] = cm
					continue
				}
				st[k] = jsonToC(e, uni)
			}
			return st
		}
		cm := &cMap{m: map[string]any{}, def: 0}
		for kk, vv := range x {
			cm.m[kk] = jsonToC(vv, uni)
		}
		return cm
	case nil:
		return []any(nil)
	case []any:
		out := make([]any, len(x))
		for i, e := range x {
			out[i] = jsonToC(e, uni)
		}
		return out
	case string:
		uni[x] = true
		return x
	case float64:
		return int(x)
	case bool:
		return x
	}
	return v
}

// cEvalBool evaluates a clause; a conjunction is false as soon as one conjunct
// that can be evaluated is false (conjuncts about memory identity are skipped).
func cEvalBool(env *cEnv, e SExpr) (ok bool, err string) {
	if b, isB := e.(SBin); isB && b.Op == "&&" {
		l, le := cEvalBool(env, b.X)
		r, re := cEvalBool(env, b.Y)
		switch {
		case le == "" && !l:
			return false, ""
		case re == "" && !r:
			return false, ""
		case le != "":
			return false, le
		case re != "":
			return false, re
		}
		return true, ""
	}
	return cEvalBool1(env, e)
}

func cEvalBool1(env *cEnv, e SExpr) (ok bool, err string) {
	defer func() {
		if r := recover(); r != nil {
			if ce, isC := r.(cErr); isC {
				err = ce.msg
				return
			}
			err = fmt.Sprint(r)
		}
	}()
	v := cEval(env, e)
	b, isB := v.(bool)
	if !isB {
		return false, "not a boolean"
	}
	return b, ""
}
