package main

import (
	"os"
	"testing"
)

// maintenance: GOCV_SEARCHALL=1 go test -run TestSearchAllUnchanged: no function may have a "counterexample" on the unchanged tree
func TestSearchAllUnchanged(t *testing.T) {
	if os.Getenv("GOCV_SEARCHALL") == "" {
		t.Skip()
	}
	opts := &RunOpts{Repo: "/repo", Verif: "/verif", Tier: "quick", FuncRe: ".", NoSolve: true}
	run, err := verifyRun(opts)
	if err != nil {
		t.Fatal(err)
	}
	n := 0
	for _, r := range run.Results {
		if r.Contract == nil || r.Trusted {
			continue
		}
		cx, why := run.World.searchCounterexample(opts, r.Contract)
		if cx != nil {
			t.Errorf("FALSE COUNTEREXAMPLE %s: clause %s inputs %v outputs %v panic %q", r.Name, cx.Clause, cx.Inputs, cx.Outputs, cx.PanicMsg)
		}
		if why != "" && len(why) > 3 && why[:3] == "no " && why != "no declaration" && why != "no type information" && why[:10] == "no failing" {
			n++
			t.Logf("searched %s: %s", r.Name, why)
		}
	}
	t.Logf("%d functions searched", n)
}
