package main

// SMT side: sort mapping, on-demand declarations, solver racing.

import (
	"bytes"
	"context"
	"fmt"
	"go/types"
	"os"
	"os/exec"
	"path/filepath"
	"sort"
	"strings"
	"sync"
	"time"
)

const preludeSMT = `(set-option :produce-models true)
(set-logic ALL)
(declare-sort Str 0)
(declare-sort Any 0)
(declare-datatypes ((GSeq 1)) ((par (E) ((mksq (sq.arr (Array Int E)) (sq.len Int) (sq.ref Int))))))
(declare-datatypes ((GMap 2)) ((par (K V) ((mkmp (mp.val (Array K V)) (mp.dom (Array K Bool)) (mp.ref Int))))))
(declare-fun strlen (Str) Int)
(assert (forall ((s Str)) (! (>= (strlen s) 0) :pattern ((strlen s)))))
(declare-fun strcat (Str Str) Str)
(declare-fun s.prefix (Str Str) Bool)
(declare-fun s.suffix (Str Str) Bool)
(declare-const str!empty Str)
(assert (= (strlen str!empty) 0))
(assert (forall ((s Str)) (! (=> (= (strlen s) 0) (= s str!empty)) :pattern ((strlen s)))))
(declare-const nil!Any Any)
(declare-const alloc0 Int)
(assert (> alloc0 0))
`

// Sess holds everything that is emitted for one function under verification.
type Sess struct {
	decls    []string
	declSet  map[string]bool
	facts    []string
	n        int
	strLits  map[string]string // literal -> const name
	strOrder []string
	sorts    map[string]bool
	structs  map[string]*types.Struct
}

func newSess() *Sess {
	return &Sess{declSet: map[string]bool{}, strLits: map[string]string{}, sorts: map[string]bool{}, structs: map[string]*types.Struct{}}
}

func (s *Sess) decl(key, text string) {
	if s.declSet[key] {
		return
	}
	s.declSet[key] = true
	s.decls = append(s.decls, text)
}

func (s *Sess) fresh(prefix, sort string) string {
	s.n++
	name := fmt.Sprintf("%s!%d", sanitize(prefix), s.n)
	s.decls = append(s.decls, fmt.Sprintf("(declare-const %s %s)", name, sort))
	return name
}

func (s *Sess) fact(f string) {
	if f == "" || f == "true" {
		return
	}
	s.facts = append(s.facts, f)
}

// hint: a derived fact that is only useful when symbol sym occurs elsewhere in
// the query; it is dropped from queries that never mention sym.
const hintMark = ";hint:"

func (s *Sess) hint(sym, f string) {
	if f == "" || f == "true" {
		return
	}
	s.facts = append(s.facts, hintMark+sym+";"+f)
}

func sanitize(s string) string {
	var b strings.Builder
	for _, r := range s {
		switch {
		case r >= 'a' && r <= 'z', r >= 'A' && r <= 'Z', r >= '0' && r <= '9', r == '_', r == '.':
			b.WriteRune(r)
		default:
			b.WriteRune('_')
		}
	}
	if b.Len() == 0 {
		return "v"
	}
	return b.String()
}

func (s *Sess) strLit(v string) string {
	if v == "" {
		return "str!empty"
	}
	if n, ok := s.strLits[v]; ok {
		return n
	}
	name := fmt.Sprintf("str!lit%d_%s", len(s.strLits), sanitize(v))
	if len(name) > 60 {
		name = name[:60]
	}
	s.strLits[v] = name
	s.strOrder = append(s.strOrder, v)
	s.decls = append(s.decls, fmt.Sprintf("(declare-const %s Str)", name))
	// literals are pairwise distinct and have their length
	s.decls = append(s.decls, fmt.Sprintf("(assert (= (strlen %s) %d))", name, len(v)))
	for _, o := range s.strOrder[:len(s.strOrder)-1] {
		s.decls = append(s.decls, fmt.Sprintf("(assert (not (= %s %s)))", name, s.strLits[o]))
		if strings.HasPrefix(v, o) {
			s.decls = append(s.decls, fmt.Sprintf("(assert (s.prefix %s %s))", name, s.strLits[o]))
		}
		if strings.HasPrefix(o, v) {
			s.decls = append(s.decls, fmt.Sprintf("(assert (s.prefix %s %s))", s.strLits[o], name))
		}
		if strings.HasSuffix(v, o) {
			s.decls = append(s.decls, fmt.Sprintf("(assert (s.suffix %s %s))", name, s.strLits[o]))
		}
		if strings.HasSuffix(o, v) {
			s.decls = append(s.decls, fmt.Sprintf("(assert (s.suffix %s %s))", s.strLits[o], name))
		}
	}
	s.decls = append(s.decls, fmt.Sprintf("(assert (not (= %s str!empty)))", name))
	return name
}

// ---------- sorts ----------

func typeKeyName(t *types.Named) string {
	obj := t.Obj()
	p := ""
	if obj.Pkg() != nil {
		p = obj.Pkg().Name() + "_"
	}
	return p + obj.Name()
}

// sortOf maps a Go type to an SMT sort, declaring datatypes on demand.
func (s *Sess) sortOf(t types.Type) string {
	switch tt := t.(type) {
	case *types.Alias:
		return s.sortOf(types.Unalias(tt))
	case *types.Named:
		// special library types
		if obj := tt.Obj(); obj.Pkg() != nil {
			full := obj.Pkg().Path() + "." + obj.Name()
			switch full {
			case "sync/atomic.Bool":
				return "Bool"
			case "sync/atomic.Int32", "sync/atomic.Int64", "sync/atomic.Uint32", "sync/atomic.Uint64", "sync/atomic.Uintptr":
				return "Int"
			case "sync/atomic.Pointer":
				return "Int"
			case "sync/atomic.Value":
				return "Any"
			case "sync.Mutex", "sync.RWMutex":
				return "Int" // ghost permission state held by the current thread: 0 none, 1 read, 2 write
			case "sync.Once", "sync.WaitGroup":
				return "Int"
			case "time.Time", "time.Duration":
				if full == "time.Duration" {
					return "Int"
				}
				return "Any"
			}
		}
		if st, ok := tt.Underlying().(*types.Struct); ok {
			name := "St_" + typeKeyName(tt)
			if tt.TypeArgs() != nil && tt.TypeArgs().Len() > 0 {
				for i := 0; i < tt.TypeArgs().Len(); i++ {
					name += "_" + sanitize(s.sortOf(tt.TypeArgs().At(i)))
				}
			}
			s.declStruct(name, st)
			return name
		}
		if _, ok := tt.Underlying().(*types.Interface); ok {
			return "Any"
		}
		return s.sortOf(tt.Underlying())
	case *types.Basic:
		switch {
		case tt.Info()&types.IsBoolean != 0:
			return "Bool"
		case tt.Info()&types.IsInteger != 0:
			return "Int"
		case tt.Info()&types.IsString != 0:
			return "Str"
		case tt.Info()&types.IsFloat != 0:
			return "Real"
		case tt.Kind() == types.UntypedNil:
			return "Any"
		case tt.Kind() == types.UnsafePointer:
			return "Int"
		}
		return "Any"
	case *types.Pointer:
		return "Int"
	case *types.Slice:
		return "(GSeq " + s.sortOf(tt.Elem()) + ")"
	case *types.Array:
		return "(GSeq " + s.sortOf(tt.Elem()) + ")"
	case *types.Map:
		return "(GMap " + s.sortOf(tt.Key()) + " " + s.sortOf(tt.Elem()) + ")"
	case *types.Struct:
		if tt.NumFields() == 0 {
			s.decl("sort:Unit", "(declare-datatypes ((Unit 0)) (((unit))))")
			return "Unit"
		}
		// anonymous struct: name by field signature
		name := "St_anon"
		for i := 0; i < tt.NumFields(); i++ {
			name += "_" + tt.Field(i).Name()
		}
		s.declStruct(name, tt)
		return name
	case *types.Interface:
		return "Any"
	case *types.Chan:
		return "Int"
	case *types.Signature:
		return "Any"
	case *types.TypeParam:
		if sub, ok := tpSubst[tt]; ok {
			return s.sortOf(sub)
		}
		// core type?
		if u := coreType(tt); u != nil {
			return s.sortOf(u)
		}
		name := "TP_" + tt.Obj().Name()
		s.decl("sort:"+name, fmt.Sprintf("(declare-sort %s 0)", name))
		return name
	case *types.Tuple:
		return "Any"
	}
	return "Any"
}

// tpSubst: type-parameter instantiation of the generic callee currently being
// inlined (stack discipline: set and restored by inlineCall).
var tpSubst = map[*types.TypeParam]types.Type{}

func coreType(tp *types.TypeParam) types.Type {
	if sub, ok := tpSubst[tp]; ok {
		return sub.Underlying()
	}
	iface, ok := tp.Constraint().Underlying().(*types.Interface)
	if !ok {
		return nil
	}
	var core types.Type
	n := 0
	for i := 0; i < iface.NumEmbeddeds(); i++ {
		e := iface.EmbeddedType(i)
		if u, ok := e.(*types.Union); ok {
			for j := 0; j < u.Len(); j++ {
				core = u.Term(j).Type()
				n++
			}
		} else if _, ok := e.Underlying().(*types.Interface); !ok {
			core = e
			n++
		}
	}
	if n == 1 {
		return core.Underlying()
	}
	return nil
}

func (s *Sess) declStruct(name string, st *types.Struct) {
	if s.declSet["sort:"+name] {
		return
	}
	s.declSet["sort:"+name] = true // mark first (recursion through pointers is via Int, so no cycles by value)
	s.structs[name] = st
	var fields []string
	for i := 0; i < st.NumFields(); i++ {
		f := st.Field(i)
		fields = append(fields, fmt.Sprintf("(%s.%s %s)", name, sanitize(f.Name()), s.sortOf(f.Type())))
	}
	if len(fields) == 0 {
		s.decls = append(s.decls, fmt.Sprintf("(declare-datatypes ((%s 0)) (((mk_%s))))", name, name))
		return
	}
	s.decls = append(s.decls, fmt.Sprintf("(declare-datatypes ((%s 0)) (((mk_%s %s))))", name, name, strings.Join(fields, " ")))
}

func seqElemSort(sort string) string {
	if strings.HasPrefix(sort, "(GSeq ") {
		return sort[6 : len(sort)-1]
	}
	return ""
}

// mapSorts splits "(GMap K V)".
func mapSorts(sort string) (string, string) {
	if !strings.HasPrefix(sort, "(GMap ") {
		return "", ""
	}
	inner := sort[6 : len(sort)-1]
	// split at top-level space
	depth := 0
	for i := 0; i < len(inner); i++ {
		switch inner[i] {
		case '(':
			depth++
		case ')':
			depth--
		case ' ':
			if depth == 0 {
				return inner[:i], inner[i+1:]
			}
		}
	}
	return "", ""
}

// ---------- helper function definitions (monomorphised on demand) ----------

func (s *Sess) fnMem(elem string) string {
	name := "mem_" + sanitize(elem)
	idx := "idx_" + sanitize(elem)
	// membership is an uninterpreted predicate tied to the sequence by a
	// Skolemised definition (witness function idx), so that mem(s,x) terms can
	// serve as instantiation triggers
	s.decl("fn:"+name, hintMark+name+";"+fmt.Sprintf(
		"(declare-fun %s ((GSeq %s) %s) Bool)\n(declare-fun %s ((GSeq %s) %s) Int)\n"+
			"(assert (forall ((s (GSeq %s)) (i Int)) (! (=> (and (<= 0 i) (< i (sq.len s))) (%s s (select (sq.arr s) i))) :pattern ((select (sq.arr s) i)))))\n"+
			"(assert (forall ((s (GSeq %s)) (x %s)) (! (=> (%s s x) (and (<= 0 (%s s x)) (< (%s s x) (sq.len s)) (= (select (sq.arr s) (%s s x)) x))) :pattern ((%s s x)))))\n"+
			"(assert (forall ((s (GSeq %s))) (! (=> (> (sq.len s) 0) (%s s (select (sq.arr s) 0))) :pattern ((sq.len s)))))",
		name, elem, elem, idx, elem, elem,
		elem, name,
		elem, elem, name, idx, idx, idx, name,
		elem, name))
	return name
}

// fnIndex: slices.Index as an uninterpreted function with its defining axioms
// (least index of x in s, or -1).
func (s *Sess) fnIndex(elem string) string {
	name := "sidx_" + sanitize(elem)
	mem := s.fnMem(elem)
	s.decl("fn:"+name, hintMark+name+";"+fmt.Sprintf(
		"(declare-fun %s ((GSeq %s) %s) Int)\n"+
			"(assert (forall ((s (GSeq %s)) (x %s)) (! (=> (>= (sq.len s) 0) (and (>= (%s s x) (- 1)) (< (%s s x) (sq.len s)) (ite (%s s x) (and (>= (%s s x) 0) (= (select (sq.arr s) (%s s x)) x)) (= (%s s x) (- 1))))) :pattern ((%s s x)))))\n"+
			"(assert (forall ((s (GSeq %s)) (x %s) (j Int)) (! (=> (and (<= 0 j) (< j (%s s x))) (not (= (select (sq.arr s) j) x))) :pattern ((%s s x) (select (sq.arr s) j)))))",
		name, elem, elem,
		elem, elem, name, name, mem, name, name, name, name,
		elem, elem, name, name))
	return name
}

func (s *Sess) fnNodup(elem string) string {
	name := "nodup_" + sanitize(elem)
	s.decl("fn:"+name, fmt.Sprintf(
		"(define-fun %s ((s (GSeq %s))) Bool (forall ((i Int) (j Int)) (=> (and (<= 0 i) (< i j) (< j (sq.len s))) (not (= (select (sq.arr s) i) (select (sq.arr s) j))))))",
		name, elem))
	return name
}

func (s *Sess) fnSubset(elem string) string {
	name := "subset_" + sanitize(elem)
	mem := s.fnMem(elem)
	s.decl("fn:"+name, fmt.Sprintf(
		"(define-fun %s ((a (GSeq %s)) (b (GSeq %s))) Bool (forall ((i Int)) (=> (and (<= 0 i) (< i (sq.len a))) (%s b (select (sq.arr a) i)))))",
		name, elem, elem, mem))
	return name
}

func (s *Sess) fnSeqeq(elem string) string {
	name := "seqeq_" + sanitize(elem)
	if s.declSet["fn:"+name] {
		return name
	}
	mem := s.fnMem(elem)
	s.decl("fn:"+name, fmt.Sprintf(
		"(declare-fun %s ((GSeq %s) (GSeq %s)) Bool)\n"+
			"(assert (forall ((a (GSeq %s)) (b (GSeq %s))) (! (= (%s a b) (and (= (sq.len a) (sq.len b)) (forall ((i Int)) (=> (and (<= 0 i) (< i (sq.len a))) (= (select (sq.arr a) i) (select (sq.arr b) i)))))) :pattern ((%s a b)))))",
		name, elem, elem, elem, elem, name, name))
	// content-equal sequences have the same members (hint: only when membership is used)
	s.decl("ax:"+name+":mem", hintMark+mem+";"+fmt.Sprintf(
		"(assert (forall ((a (GSeq %s)) (b (GSeq %s)) (x %s)) (! (=> (%s a b) (= (%s a x) (%s b x))) :pattern ((%s a b) (%s a x)) :pattern ((%s a b) (%s b x)))))",
		elem, elem, elem, name, mem, mem, name, mem, name, mem))
	return name
}

// ---------- term helpers ----------

func and(xs ...string) string {
	var ys []string
	for _, x := range xs {
		if x == "true" || x == "" {
			continue
		}
		if x == "false" {
			return "false"
		}
		ys = append(ys, x)
	}
	switch len(ys) {
	case 0:
		return "true"
	case 1:
		return ys[0]
	}
	return "(and " + strings.Join(ys, " ") + ")"
}

func or(xs ...string) string {
	var ys []string
	for _, x := range xs {
		if x == "false" || x == "" {
			continue
		}
		if x == "true" {
			return "true"
		}
		ys = append(ys, x)
	}
	switch len(ys) {
	case 0:
		return "false"
	case 1:
		return ys[0]
	}
	return "(or " + strings.Join(ys, " ") + ")"
}

func not(x string) string {
	switch x {
	case "true":
		return "false"
	case "false":
		return "true"
	}
	if strings.HasPrefix(x, "(not ") && balanced(x[5:len(x)-1]) {
		return x[5 : len(x)-1]
	}
	return "(not " + x + ")"
}

func balanced(s string) bool {
	d := 0
	for i := 0; i < len(s); i++ {
		if s[i] == '(' {
			d++
		} else if s[i] == ')' {
			d--
			if d < 0 {
				return false
			}
		}
	}
	return d == 0
}

func implies(a, b string) string {
	if a == "true" {
		return b
	}
	if b == "true" {
		return "true"
	}
	if a == "false" {
		return "true"
	}
	return "(=> " + a + " " + b + ")"
}

func ite(c, a, b string) string {
	if a == b {
		return a
	}
	if c == "true" {
		return a
	}
	if c == "false" {
		return b
	}
	return "(ite " + c + " " + a + " " + b + ")"
}

func intLit(n string) string {
	if strings.HasPrefix(n, "-") {
		return "(- " + n[1:] + ")"
	}
	return n
}

// ---------- solvers ----------

type SolverResult struct {
	Status  string // unsat | sat | unknown | timeout | error
	Solver  string
	Seconds float64
	Output  string
}

type solverSpec struct {
	name string
	args func(file string) []string
}

// Solver budgets are CPU-time limits (ulimit -t), not wall-clock limits: a
// verdict must not depend on how busy the machine is. A generous wall-clock cap
// only guards against a wedged process.
var solvers = []solverSpec{
	{"z3-new", func(f string) []string { return []string{"z3-new", f} }},
	{"z3", func(f string) []string { return []string{"z3", f} }},
	{"cvc5", func(f string) []string { return []string{"cvc5", "--incremental", f} }},
	{"z3-new/seed1", func(f string) []string { return []string{"z3-new", "smt.random_seed=1", f} }},
	{"z3-new/seed2", func(f string) []string { return []string{"z3-new", "smt.random_seed=2", f} }},
	{"z3-new/seed3", func(f string) []string { return []string{"z3-new", "smt.random_seed=3", f} }},
	{"z3/seed7", func(f string) []string { return []string{"z3", "smt.random_seed=7", f} }},
}

const wallFactor = 8

func runSolver(ctx context.Context, sp solverSpec, file string, cpuS int) SolverResult {
	t0 := time.Now()
	args := sp.args(file)
	cctx, cancel := context.WithTimeout(ctx, time.Duration(cpuS*wallFactor+5)*time.Second)
	defer cancel()
	var quoted []string
	for _, a := range args {
		quoted = append(quoted, "'"+strings.ReplaceAll(a, "'", "'\\''")+"'")
	}
	sh := fmt.Sprintf("ulimit -t %d; exec %s", cpuS, strings.Join(quoted, " "))
	cmd := exec.CommandContext(cctx, "bash", "-c", sh)
	var out bytes.Buffer
	cmd.Stdout = &out
	cmd.Stderr = &out
	_ = cmd.Run()
	res := SolverResult{Solver: sp.name, Seconds: time.Since(t0).Seconds(), Output: out.String()}
	first := ""
	for _, ln := range strings.Split(out.String(), "\n") {
		ln = strings.TrimSpace(ln)
		if ln == "" || strings.HasPrefix(ln, "WARNING") {
			continue
		}
		first = ln
		break
	}
	switch {
	case first == "unsat":
		res.Status = "unsat"
	case first == "sat":
		res.Status = "sat"
	case first == "unknown":
		res.Status = "unknown"
	case first == "" || strings.Contains(first, "timeout") || cctx.Err() != nil:
		// killed by the CPU limit (no output) or the wall cap
		res.Status = "timeout"
		if res.Output == "" {
			res.Output = fmt.Sprintf("no answer within %d s of CPU time", cpuS)
		}
	default:
		res.Status = "error"
	}
	return res
}

// solveRace: stage 1 z3-new with a short budget, stage 2 all solver variants in parallel.
func solveRace(file string, cpuS int, sem chan struct{}) SolverResult {
	sem <- struct{}{}
	short := 4
	if cpuS < short {
		short = cpuS
	}
	r := runSolver(context.Background(), solvers[0], file, short)
	<-sem
	if r.Status == "unsat" || r.Status == "sat" {
		return r
	}
	first := r
	ctx, cancel := context.WithCancel(context.Background())
	defer cancel()
	ch := make(chan SolverResult, len(solvers))
	var wg sync.WaitGroup
	for _, sp := range solvers {
		wg.Add(1)
		go func(sp solverSpec) {
			defer wg.Done()
			sem <- struct{}{}
			defer func() { <-sem }()
			if ctx.Err() != nil {
				ch <- SolverResult{Solver: sp.name, Status: "timeout"}
				return
			}
			ch <- runSolver(ctx, sp, file, cpuS)
		}(sp)
	}
	go func() { wg.Wait(); close(ch) }()
	best := first
	var errs []string
	nerr := 0
	for r := range ch {
		if r.Status == "unsat" {
			cancel()
			return r
		}
		if r.Status == "sat" && best.Status != "sat" {
			best = r
		}
		if r.Status == "error" {
			nerr++
			errs = append(errs, r.Solver+": "+firstLines(r.Output, 3))
		}
	}
	if best.Status == "error" || (best.Status != "sat" && nerr == len(solvers)) {
		best.Status = "error"
		best.Output = strings.Join(errs, "\n")
	}
	return best
}

func firstLines(s string, n int) string {
	parts := strings.SplitN(s, "\n", n+1)
	if len(parts) > n {
		parts = parts[:n]
	}
	return strings.Join(parts, "\n")
}

// writeQuery renders one obligation as an SMT-LIB file.
func writeQuery(dir, name string, decls, facts []string, goal string, wantModel bool) (string, error) {
	var b strings.Builder
	b.WriteString(preludeSMT)
	declHints := map[int]bool{}
	var dtxt strings.Builder
	for _, d := range decls {
		if !strings.HasPrefix(d, hintMark) {
			dtxt.WriteString(d)
		}
	}
	{
		var plain strings.Builder
		plain.WriteString(goal)
		for _, f := range facts {
			if !strings.HasPrefix(f, hintMark) {
				plain.WriteString(f)
			}
		}
		ptxt := plain.String() + dtxt.String()
		// hint facts that will be included may themselves mention other hinted symbols
		for _, f := range facts {
			if strings.HasPrefix(f, hintMark) {
				rest := f[len(hintMark):]
				k := strings.Index(rest, ";")
				if strings.Contains(ptxt, "("+rest[:k]+" ") {
					ptxt += rest[k+1:]
				}
			}
		}
		for changed := true; changed; {
			changed = false
			for i, d := range decls {
				if strings.HasPrefix(d, hintMark) && !declHints[i] {
					rest := d[len(hintMark):]
					k := strings.Index(rest, ";")
					if strings.Contains(ptxt, "("+rest[:k]+" ") {
						declHints[i] = true
						ptxt += rest[k+1:]
						changed = true
					}
				}
			}
		}
	}
	for i, d := range decls {
		if strings.HasPrefix(d, hintMark) {
			if !declHints[i] {
				continue
			}
			rest := d[len(hintMark):]
			d = rest[strings.Index(rest, ";")+1:]
		}
		b.WriteString(d)
		b.WriteByte('\n')
	}
	// hints are kept only if their symbol is used by the goal or a plain fact
	var plain strings.Builder
	plain.WriteString(goal)
	for _, f := range facts {
		if !strings.HasPrefix(f, hintMark) {
			plain.WriteString(f)
		}
	}
	ptxt := plain.String() + dtxt.String()
	for _, f := range facts {
		if strings.HasPrefix(f, hintMark) {
			rest := f[len(hintMark):]
			k := strings.Index(rest, ";")
			sym, body := rest[:k], rest[k+1:]
			if !strings.Contains(ptxt, "("+sym+" ") {
				continue
			}
			f = body
		}
		b.WriteString("(assert ")
		b.WriteString(f)
		b.WriteString(")\n")
	}
	b.WriteString("(assert (not ")
	b.WriteString(goal)
	b.WriteString("))\n(check-sat)\n")
	if wantModel {
		b.WriteString("(get-model)\n")
	}
	fn := filepath.Join(dir, sanitize(name)+".smt2")
	if len(fn) > 240 {
		fn = fn[:230] + ".smt2"
	}
	return fn, os.WriteFile(fn, []byte(b.String()), 0o644)
}

func sortedKeys[V any](m map[string]V) []string {
	ks := make([]string, 0, len(m))
	for k := range m {
		ks = append(ks, k)
	}
	sort.Strings(ks)
	return ks
}
