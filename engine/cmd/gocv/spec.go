package main

// Contract language: lexer, parser, AST.
//
// Contracts live in comment-only Go files in /repo (//go:build verif) and in
// /verif/speclib/*.gocv. Every line of interest starts with `//@`.

import (
	"fmt"
	"os"
	"strings"
	"unicode"
)

// ---------- spec expression AST ----------

type SExpr interface{ sexpr() }

type (
	SIdent struct{ Name string }
	SInt   struct{ V string }
	SStr   struct{ V string }
	SBool  struct{ V bool }
	SNil   struct{}
	SUn    struct {
		Op string
		X  SExpr
	}
	SBin struct {
		Op   string
		X, Y SExpr
	}
	SCond  struct{ C, A, B SExpr }
	SQuant struct {
		Forall bool
		Vars   []SBinder
		Body   SExpr
	}
	SCall struct {
		Fun  SExpr
		Args []SExpr
	}
	SSel struct {
		X   SExpr
		Sel string
	}
	SIndex struct{ X, I SExpr }
	SSlice struct{ X, Lo, Hi SExpr }
	SOld   struct{ X SExpr }
	SLet   struct {
		Name string
		Val  SExpr
		Body SExpr
	}
)

type SBinder struct {
	Name string
	Type string // Go type expression text, resolved in package scope
}

func (SIdent) sexpr() {}
func (SInt) sexpr()   {}
func (SStr) sexpr()   {}
func (SBool) sexpr()  {}
func (SNil) sexpr()   {}
func (SUn) sexpr()    {}
func (SBin) sexpr()   {}
func (SCond) sexpr()  {}
func (SQuant) sexpr() {}
func (SCall) sexpr()  {}
func (SSel) sexpr()   {}
func (SIndex) sexpr() {}
func (SSlice) sexpr() {}
func (SOld) sexpr()   {}
func (SLet) sexpr()   {}

// ---------- contract items ----------

type Clause struct {
	Kind  string // requires | ensures | invariant | decreases
	Label string
	Loop  int // for invariant / decreases of loops (1-based ordinal); 0 = function
	Expr  SExpr
	Text  string
	Case  string // optional: clause only under this named case
}

type LoopLet struct {
	Loop int
	Name string
	Expr SExpr
}

type GhostSet struct {
	Name string
	Expr SExpr
	Text string
}

type LemmaStep struct {
	Kind    string // call | assert | assume(not allowed) | use
	Results []string
	Call    *SCall
	Expr    SExpr
	Label   string
}

type Contract struct {
	File     string
	Line     int
	Header   string // the text after //@ up to the first clause, a Go func header
	Pkg      string // package path the contract belongs to ("" for speclib = by qualified name)
	Recv     string // receiver type name (without *), "" for functions
	Name     string
	Params   []string // names as written in the contract header (positional)
	PTypes   []string
	Results  []string
	RTypes   []string
	Requires []Clause
	Ensures  []Clause
	Loops    []Clause
	Assigns  []SExpr
	AssignsAll bool
	AllUnless  SExpr // "assigns * unless <cond>": everything may change unless cond held on entry
	HasAssigns bool
	Trusted  bool
	Pure     bool
	Owner    bool // runs on the goroutine that owns the queue (the only writer of owner-read guarded fields)
	NoInline bool
	Abstracts []string // free text: what is abstracted (goes to evidence)
	Props    []string  // property ids this contract serves
	IsLemma  bool
	Steps    []LemmaStep
	Uses     []string // lemmas / axioms made available to this function's obligations
	Ghost    []SBinder // ghost havoc'd variables for lemma
	Induct   string   // induction variable for lemmas
	Bounded  string   // non-empty: this is a bounded stand-in description
	Patterns [][]SExpr // instantiation patterns when the lemma is used as an axiom
	Irrelevant []string // captured variables of closures whose assignments are ghost-irrelevant (logging only)
	Mutates  []string   // slice parameters modified in place; post(p) is their final value
	Closes   []string   // channel parameters that are closed on return
	LoopLets []LoopLet
	GhostSets []GhostSet // ghost assignments executed at the function's exit (and assumed at call sites)
}

func (c *Contract) Key() string {
	if c.Recv != "" {
		return c.Pkg + "." + c.Recv + "." + c.Name
	}
	return c.Pkg + "." + c.Name
}

type Macro struct {
	Name   string
	Params []SBinder
	Ret    string // "" for pred (bool)
	Body   SExpr
	Rec    bool
	Opaque bool
	Ufn    bool // uninterpreted spec function (no body)
	Pkg    string
}

type Axiom struct {
	Name string
	Expr SExpr
	Pkg  string
	Text string
}

type SpecFile struct {
	Path      string
	Pkg       string
	Contracts []*Contract
	Macros    []*Macro
	Axioms    []*Axiom
	Guards    []*Guard
}

// Guard: `guard Type.field by mutexField [owner-reads]`: field of Type is
// protected by the mutex field of the same object. With owner-reads, the
// goroutine that owns the queue may read it without the lock (it is the only
// writer).
type Guard struct {
	Pkg, Type, Field, Mutex string
	OwnerReads              bool
}

// ---------- lexer ----------

type tok struct {
	k string // ident int str op eof
	v string
}

func lexSpec(s string) ([]tok, error) {
	var out []tok
	i := 0
	for i < len(s) {
		c := s[i]
		switch {
		case c == ' ' || c == '\t' || c == '\n' || c == '\r':
			i++
		case c == '/' && i+1 < len(s) && s[i+1] == '/':
			// trailing comment
			for i < len(s) && s[i] != '\n' {
				i++
			}
		case unicode.IsLetter(rune(c)) || c == '_':
			j := i
			for j < len(s) && (unicode.IsLetter(rune(s[j])) || unicode.IsDigit(rune(s[j])) || s[j] == '_') {
				j++
			}
			out = append(out, tok{"ident", s[i:j]})
			i = j
		case c >= '0' && c <= '9':
			j := i
			for j < len(s) && ((s[j] >= '0' && s[j] <= '9') || s[j] == '_') {
				j++
			}
			out = append(out, tok{"int", strings.ReplaceAll(s[i:j], "_", "")})
			i = j
		case c == '"':
			j := i + 1
			for j < len(s) && s[j] != '"' {
				j++
			}
			if j >= len(s) {
				return nil, fmt.Errorf("unterminated string")
			}
			out = append(out, tok{"str", s[i+1 : j]})
			i = j + 1
		default:
			ops := []string{"<==>", "==>", "::", ":=", "==", "!=", "<=", ">=", "&&", "||", "...",
				"<", ">", "+", "-", "*", "/", "%", "!", "(", ")", "[", "]", ".", ",", ":", "?", "{", "}", "~", "|", "&"}
			found := false
			for _, op := range ops {
				if strings.HasPrefix(s[i:], op) {
					out = append(out, tok{"op", op})
					i += len(op)
					found = true
					break
				}
			}
			if !found {
				return nil, fmt.Errorf("bad char %q in spec %q", c, s)
			}
		}
	}
	out = append(out, tok{"eof", ""})
	return out, nil
}

// ---------- parser ----------

type sparser struct {
	toks []tok
	p    int
}

func (p *sparser) peek() tok { return p.toks[p.p] }
func (p *sparser) next() tok { t := p.toks[p.p]; p.p++; return t }
func (p *sparser) isOp(v string) bool {
	t := p.peek()
	return t.k == "op" && t.v == v
}
func (p *sparser) isIdent(v string) bool {
	t := p.peek()
	return t.k == "ident" && t.v == v
}
func (p *sparser) expectOp(v string) {
	if !p.isOp(v) {
		panic(fmt.Sprintf("spec: expected %q, got %q (%v)", v, p.peek().v, p.rest()))
	}
	p.p++
}
func (p *sparser) rest() string {
	var sb strings.Builder
	for i := p.p; i < len(p.toks) && i < p.p+12; i++ {
		sb.WriteString(p.toks[i].v + " ")
	}
	return sb.String()
}

func parseSpecExpr(s string) (e SExpr, err error) {
	toks, err := lexSpec(s)
	if err != nil {
		return nil, err
	}
	defer func() {
		if r := recover(); r != nil {
			err = fmt.Errorf("%v in %q", r, s)
		}
	}()
	p := &sparser{toks: toks}
	e = p.expr()
	if p.peek().k != "eof" {
		panic(fmt.Sprintf("spec: trailing tokens: %s", p.rest()))
	}
	return e, nil
}

func (p *sparser) expr() SExpr {
	if p.isIdent("forall") || p.isIdent("exists") {
		fa := p.next().v == "forall"
		vars := p.binders()
		p.expectOp("::")
		body := p.expr()
		return SQuant{fa, vars, body}
	}
	if p.isIdent("let") {
		p.next()
		name := p.next().v
		p.expectOp(":=")
		v := p.ternary()
		if !p.isIdent("in") {
			panic("spec: expected 'in'")
		}
		p.next()
		return SLet{name, v, p.expr()}
	}
	return p.ternary()
}

// binders: a, b int, c string
func (p *sparser) binders() []SBinder {
	var out []SBinder
	for {
		var names []string
		for {
			t := p.next()
			if t.k != "ident" {
				panic("spec: binder name expected")
			}
			names = append(names, t.v)
			if p.isOp(",") {
				p.next()
				continue
			}
			break
		}
		ty := p.typeText()
		for _, n := range names {
			out = append(out, SBinder{n, ty})
		}
		if p.isOp(",") {
			p.next()
			continue
		}
		break
	}
	return out
}

// typeText consumes a Go type expression (limited): [*][]ident[.ident], map[K]V
func (p *sparser) typeText() string {
	var sb strings.Builder
	for {
		if p.isOp("*") {
			p.next()
			sb.WriteString("*")
			continue
		}
		if p.isOp("[") {
			p.next()
			if p.isOp("]") {
				p.next()
				sb.WriteString("[]")
				continue
			}
			panic("spec: array types unsupported in binder")
		}
		break
	}
	t := p.next()
	if t.k != "ident" {
		panic("spec: type name expected, got " + t.v)
	}
	sb.WriteString(t.v)
	if t.v == "chan" {
		sb.WriteString(" " + p.typeText())
		return sb.String()
	}
	if t.v == "struct" {
		p.expectOp("{")
		p.expectOp("}")
		sb.WriteString("{}")
		return sb.String()
	}
	if t.v == "map" {
		p.expectOp("[")
		sb.WriteString("[" + p.typeText() + "]")
		p.expectOp("]")
		sb.WriteString(p.typeText())
		return sb.String()
	}
	if p.isOp(".") {
		p.next()
		sb.WriteString("." + p.next().v)
	}
	return sb.String()
}

func (p *sparser) ternary() SExpr {
	c := p.iff()
	if p.isOp("?") {
		p.next()
		a := p.ternary()
		p.expectOp(":")
		b := p.ternary()
		return SCond{c, a, b}
	}
	return c
}

func (p *sparser) iff() SExpr {
	x := p.impl()
	for p.isOp("<==>") {
		p.next()
		y := p.impl()
		x = SBin{"<==>", x, y}
	}
	return x
}

func (p *sparser) impl() SExpr {
	x := p.or()
	if p.isOp("==>") {
		p.next()
		var y SExpr
		if p.isIdent("forall") || p.isIdent("exists") {
			y = p.expr()
		} else {
			y = p.impl()
		}
		return SBin{"==>", x, y}
	}
	return x
}

func (p *sparser) or() SExpr {
	x := p.and()
	for p.isOp("||") {
		p.next()
		var y SExpr
		if p.isIdent("forall") || p.isIdent("exists") {
			y = p.expr()
		} else {
			y = p.and()
		}
		x = SBin{"||", x, y}
	}
	return x
}

func (p *sparser) and() SExpr {
	x := p.cmp()
	for p.isOp("&&") {
		p.next()
		var y SExpr
		if p.isIdent("forall") || p.isIdent("exists") {
			y = p.expr()
		} else {
			y = p.cmp()
		}
		x = SBin{"&&", x, y}
	}
	return x
}

func isRel(t tok) bool {
	if t.k != "op" {
		return false
	}
	switch t.v {
	case "==", "!=", "<", "<=", ">", ">=":
		return true
	}
	return false
}

func (p *sparser) cmp() SExpr {
	x := p.add()
	if !isRel(p.peek()) {
		if p.isIdent("in") && false {
			return x
		}
		return x
	}
	// chains: a <= b < c  ==> a<=b && b<c
	var res SExpr
	left := x
	for isRel(p.peek()) {
		op := p.next().v
		right := p.add()
		c := SBin{op, left, right}
		if res == nil {
			res = c
		} else {
			res = SBin{"&&", res, c}
		}
		left = right
	}
	return res
}

func (p *sparser) add() SExpr {
	x := p.mul()
	for p.isOp("+") || p.isOp("-") {
		op := p.next().v
		y := p.mul()
		x = SBin{op, x, y}
	}
	return x
}

func (p *sparser) mul() SExpr {
	x := p.unary()
	for p.isOp("*") || p.isOp("/") || p.isOp("%") {
		op := p.next().v
		y := p.unary()
		x = SBin{op, x, y}
	}
	return x
}

func (p *sparser) unary() SExpr {
	if p.isOp("!") {
		p.next()
		return SUn{"!", p.unary()}
	}
	if p.isOp("-") {
		p.next()
		return SUn{"-", p.unary()}
	}
	if p.isOp("*") { // deref: struct value of pointer
		p.next()
		return SUn{"*", p.unary()}
	}
	return p.postfix()
}

func (p *sparser) postfix() SExpr {
	x := p.primary()
	for {
		switch {
		case p.isOp("."):
			p.next()
			t := p.next()
			if t.k != "ident" {
				panic("spec: selector expected")
			}
			x = SSel{x, t.v}
		case p.isOp("["):
			p.next()
			if p.isOp(":") {
				p.next()
				hi := p.expr()
				p.expectOp("]")
				x = SSlice{x, nil, hi}
				continue
			}
			i := p.expr()
			if p.isOp(":") {
				p.next()
				var hi SExpr
				if !p.isOp("]") {
					hi = p.expr()
				}
				p.expectOp("]")
				x = SSlice{x, i, hi}
				continue
			}
			p.expectOp("]")
			x = SIndex{x, i}
		case p.isOp("("):
			p.next()
			var args []SExpr
			for !p.isOp(")") {
				args = append(args, p.expr())
				if p.isOp(",") {
					p.next()
				}
			}
			p.expectOp(")")
			if id, ok := x.(SIdent); ok && id.Name == "old" && len(args) == 1 {
				x = SOld{args[0]}
			} else {
				x = SCall{x, args}
			}
		default:
			return x
		}
	}
}

func (p *sparser) primary() SExpr {
	t := p.next()
	switch t.k {
	case "ident":
		switch t.v {
		case "true":
			return SBool{true}
		case "false":
			return SBool{false}
		case "nil":
			return SNil{}
		}
		return SIdent{t.v}
	case "int":
		return SInt{t.v}
	case "str":
		return SStr{t.v}
	case "op":
		if t.v == "(" {
			e := p.expr()
			p.expectOp(")")
			return e
		}
	}
	panic(fmt.Sprintf("spec: unexpected token %q (%s)", t.v, p.rest()))
}

// ---------- file-level parsing ----------

// readSpecLines extracts logical //@ lines (continuation: a line that starts
// with whitespace after //@ and does not begin with a keyword continues the
// previous clause).
func readSpecLines(path string) ([]string, []int, error) {
	b, err := os.ReadFile(path)
	if err != nil {
		return nil, nil, err
	}
	var lines []string
	var nums []int
	for i, ln := range strings.Split(string(b), "\n") {
		t := strings.TrimSpace(ln)
		if !strings.HasPrefix(t, "//@") {
			continue
		}
		body := strings.TrimPrefix(t, "//@")
		lines = append(lines, body)
		nums = append(nums, i+1)
	}
	return lines, nums, nil
}

var clauseKeywords = map[string]bool{
	"func": true, "requires": true, "ensures": true, "assigns": true, "loop": true,
	"decreases": true, "trusted": true, "pure": true, "pred": true, "fn": true,
	"lemma": true, "axiom": true, "call": true, "assert": true, "abstracts": true,
	"props": true, "uses": true, "noinline": true, "ghost": true, "induct": true,
	"package": true, "recfn": true, "opred": true, "ufn": true, "bounded": true, "use": true, "pattern": true, "irrelevant": true, "mutates": true, "ghostset": true, "closes": true, "guard": true, "owner": true, "ownership": true,
}

func firstWord(s string) string {
	s = strings.TrimSpace(s)
	i := 0
	for i < len(s) && (unicode.IsLetter(rune(s[i])) || s[i] == '_') {
		i++
	}
	return s[:i]
}

func stripComment(s string) string {
	// remove trailing `// ...` that is not inside a string
	in := false
	for i := 0; i+1 < len(s); i++ {
		if s[i] == '"' {
			in = !in
		}
		if !in && s[i] == '/' && s[i+1] == '/' {
			return s[:i]
		}
	}
	return s
}

func parseSpecFile(path, pkgPath string) (*SpecFile, error) {
	raw, nums, err := readSpecLines(path)
	if err != nil {
		return nil, err
	}
	// join continuation lines
	var lines []string
	var lnums []int
	for i, l := range raw {
		l = stripComment(l)
		if strings.TrimSpace(l) == "" {
			continue
		}
		w := firstWord(l)
		if clauseKeywords[w] || len(lines) == 0 {
			lines = append(lines, strings.TrimSpace(l))
			lnums = append(lnums, nums[i])
		} else {
			lines[len(lines)-1] += " " + strings.TrimSpace(l)
		}
	}
	sf := &SpecFile{Path: path, Pkg: pkgPath}
	var cur *Contract
	fail := func(i int, f string, a ...any) error {
		return fmt.Errorf("%s:%d: %s", path, lnums[i], fmt.Sprintf(f, a...))
	}
	for i, l := range lines {
		w := firstWord(l)
		rest := strings.TrimSpace(strings.TrimPrefix(l, w))
		switch w {
		case "package":
			sf.Pkg = rest
			pkgPath = rest
		case "func", "lemma":
			c := &Contract{File: path, Line: lnums[i], Pkg: pkgPath, Header: l, IsLemma: w == "lemma"}
			if err := parseHeader(c, rest); err != nil {
				return nil, fail(i, "%v", err)
			}
			sf.Contracts = append(sf.Contracts, c)
			cur = c
		case "ufn":
			m, err := parseMacro("fn", rest+" := true")
			if err != nil {
				return nil, fail(i, "%v", err)
			}
			m.Ufn = true
			m.Pkg = pkgPath
			sf.Macros = append(sf.Macros, m)
		case "pred", "fn", "recfn", "opred":
			m, err := parseMacro(w, rest)
			if err != nil {
				return nil, fail(i, "%v", err)
			}
			m.Pkg = pkgPath
			sf.Macros = append(sf.Macros, m)
		case "ownership":
			// `ownership Type.field`: an atomic.Bool that is the ownership token of the
			// queue: CAS(false,true) success sets ghost.owner, Store(false) clears it
			tf := strings.SplitN(strings.TrimSpace(rest), ".", 2)
			if len(tf) != 2 {
				return nil, fail(i, "ownership: want `ownership Type.field`")
			}
			sf.Guards = append(sf.Guards, &Guard{Pkg: pkgPath, Type: tf[0], Field: tf[1], Mutex: "", OwnerReads: false})
		case "guard":
			f := strings.Fields(rest)
			if len(f) < 3 || f[1] != "by" || !strings.Contains(f[0], ".") {
				return nil, fail(i, "guard: want `guard Type.field by mutexField [owner-reads]`")
			}
			tf := strings.SplitN(f[0], ".", 2)
			g := &Guard{Pkg: pkgPath, Type: tf[0], Field: tf[1], Mutex: f[2]}
			if len(f) > 3 && f[3] == "owner-reads" {
				g.OwnerReads = true
			}
			sf.Guards = append(sf.Guards, g)
		case "axiom":
			lab, ex := splitLabel(rest)
			e, err := parseSpecExpr(ex)
			if err != nil {
				return nil, fail(i, "%v", err)
			}
			sf.Axioms = append(sf.Axioms, &Axiom{Name: lab, Expr: e, Pkg: pkgPath, Text: ex})
		default:
			if cur == nil {
				return nil, fail(i, "clause %q outside a contract", w)
			}
			switch w {
			case "requires", "ensures":
				lab, ex := splitLabel(rest)
				e, err := parseSpecExpr(ex)
				if err != nil {
					return nil, fail(i, "%v", err)
				}
				cl := Clause{Kind: w, Label: lab, Expr: e, Text: ex}
				if w == "requires" {
					cur.Requires = append(cur.Requires, cl)
				} else {
					cur.Ensures = append(cur.Ensures, cl)
				}
			case "loop":
				// loop N invariant label: expr | loop N decreases expr
				var n int
				var kind string
				parts := strings.Fields(rest)
				if len(parts) < 3 {
					return nil, fail(i, "bad loop clause")
				}
				fmt.Sscanf(parts[0], "%d", &n)
				kind = parts[1]
				if kind == "let" {
					// loop N let name := expr
					body := strings.TrimSpace(strings.TrimPrefix(strings.TrimSpace(strings.TrimPrefix(rest, parts[0])), "let"))
					k := strings.Index(body, ":=")
					if k < 0 {
						return nil, fail(i, "loop let needs :=")
					}
					e, err := parseSpecExpr(body[k+2:])
					if err != nil {
						return nil, fail(i, "%v", err)
					}
					cur.LoopLets = append(cur.LoopLets, LoopLet{n, strings.TrimSpace(body[:k]), e})
					break
				}
				ex := strings.TrimSpace(strings.TrimPrefix(strings.TrimSpace(strings.TrimPrefix(rest, parts[0])), kind))
				lab := ""
				if kind == "invariant" || kind == "assume" {
					lab, ex = splitLabel(ex)
				}
				e, err := parseSpecExpr(ex)
				if err != nil {
					return nil, fail(i, "%v", err)
				}
				cur.Loops = append(cur.Loops, Clause{Kind: kind, Label: lab, Loop: n, Expr: e, Text: ex})
			case "decreases":
				e, err := parseSpecExpr(rest)
				if err != nil {
					return nil, fail(i, "%v", err)
				}
				cur.Loops = append(cur.Loops, Clause{Kind: "decreases", Loop: 0, Expr: e, Text: rest})
			case "assigns":
				cur.HasAssigns = true
				if rest == "*" {
					cur.AssignsAll = true
					break
				}
				if strings.HasPrefix(rest, "* unless ") {
					e, err := parseSpecExpr(strings.TrimPrefix(rest, "* unless "))
					if err != nil {
						return nil, fail(i, "%v", err)
					}
					cur.AllUnless = e
					break
				}
				if rest == "nothing" {
					break
				}
				for _, part := range splitTop(rest, ',') {
					e, err := parseSpecExpr(part)
					if err != nil {
						return nil, fail(i, "%v", err)
					}
					cur.Assigns = append(cur.Assigns, e)
				}
			case "trusted":
				cur.Trusted = true
				if rest != "" {
					cur.Abstracts = append(cur.Abstracts, "trusted: "+rest)
				}
			case "pure":
				cur.Pure = true
			case "owner":
				// runs on the goroutine that owns the queue: ghost.owner == 1 on entry
				cur.Owner = true
				e, err := parseSpecExpr("ghost.owner == 1")
				if err != nil {
					return nil, fail(i, "%v", err)
				}
				cur.Requires = append(cur.Requires, Clause{Kind: "requires", Label: "owner", Expr: e, Text: "ghost.owner == 1 (runs on the queue-owner goroutine)"})
			case "noinline":
				cur.NoInline = true
			case "bounded":
				cur.Bounded = rest
			case "abstracts":
				cur.Abstracts = append(cur.Abstracts, rest)
			case "props":
				cur.Props = append(cur.Props, strings.Fields(strings.ReplaceAll(rest, ",", " "))...)
			case "uses", "use":
				cur.Uses = append(cur.Uses, strings.Fields(strings.ReplaceAll(rest, ",", " "))...)
			case "ghostset":
				k := strings.Index(rest, ":=")
				if k < 0 {
					return nil, fail(i, "ghostset needs :=")
				}
				e, err := parseSpecExpr(rest[k+2:])
				if err != nil {
					return nil, fail(i, "%v", err)
				}
				cur.GhostSets = append(cur.GhostSets, GhostSet{strings.TrimSpace(rest[:k]), e, rest})
			case "irrelevant":
				cur.Irrelevant = append(cur.Irrelevant, strings.Fields(strings.ReplaceAll(rest, ",", " "))...)
			case "closes":
				cur.Closes = append(cur.Closes, strings.Fields(strings.ReplaceAll(rest, ",", " "))...)
			case "mutates":
				cur.Mutates = append(cur.Mutates, strings.Fields(strings.ReplaceAll(rest, ",", " "))...)
			case "induct":
				cur.Induct = rest
			case "pattern":
				var pat []SExpr
				for _, part := range splitTop(rest, ';') {
					e, err := parseSpecExpr(part)
					if err != nil {
						return nil, fail(i, "%v", err)
					}
					pat = append(pat, e)
				}
				cur.Patterns = append(cur.Patterns, pat)
			case "ghost":
				toks, err := lexSpec(rest)
				if err != nil {
					return nil, fail(i, "%v", err)
				}
				p := &sparser{toks: toks}
				func() {
					defer func() {
						if r := recover(); r != nil {
							err = fmt.Errorf("%v", r)
						}
					}()
					cur.Ghost = append(cur.Ghost, p.binders()...)
				}()
				if err != nil {
					return nil, fail(i, "%v", err)
				}
			case "call":
				// call a, b := f(x, y)   or   call f(x)
				st := LemmaStep{Kind: "call"}
				ex := rest
				if k := strings.Index(rest, ":="); k >= 0 {
					for _, r := range strings.Split(rest[:k], ",") {
						st.Results = append(st.Results, strings.TrimSpace(r))
					}
					ex = rest[k+2:]
				}
				e, err := parseSpecExpr(ex)
				if err != nil {
					return nil, fail(i, "%v", err)
				}
				c, ok := e.(SCall)
				if !ok {
					return nil, fail(i, "call step needs a call")
				}
				st.Call = &c
				cur.Steps = append(cur.Steps, st)
			case "assert":
				lab, ex := splitLabel(rest)
				e, err := parseSpecExpr(ex)
				if err != nil {
					return nil, fail(i, "%v", err)
				}
				cur.Steps = append(cur.Steps, LemmaStep{Kind: "assert", Expr: e, Label: lab})
			default:
				return nil, fail(i, "unknown clause %q", w)
			}
		}
	}
	return sf, nil
}

// splitLabel splits "label: expr" (label = identifier) from the clause text.
func splitLabel(s string) (string, string) {
	s = strings.TrimSpace(s)
	i := 0
	for i < len(s) && (unicode.IsLetter(rune(s[i])) || unicode.IsDigit(rune(s[i])) || s[i] == '_') {
		i++
	}
	if i > 0 && i < len(s) && s[i] == ':' && (i+1 >= len(s) || (s[i+1] != ':' && s[i+1] != '=')) {
		return s[:i], strings.TrimSpace(s[i+1:])
	}
	return "", s
}

func splitTop(s string, sep byte) []string {
	var out []string
	depth := 0
	last := 0
	for i := 0; i < len(s); i++ {
		switch s[i] {
		case '(', '[', '{':
			depth++
		case ')', ']', '}':
			depth--
		default:
			if s[i] == sep && depth == 0 {
				out = append(out, strings.TrimSpace(s[last:i]))
				last = i + 1
			}
		}
	}
	out = append(out, strings.TrimSpace(s[last:]))
	return out
}

// parseHeader parses `(recv *T) Name[typeparams](a A, b B) (r R)`.
func parseHeader(c *Contract, s string) error {
	s = strings.TrimSpace(s)
	if strings.HasPrefix(s, "(") {
		end := matchParen(s, 0)
		if end < 0 {
			return fmt.Errorf("bad receiver in %q", s)
		}
		recv := strings.TrimSpace(s[1:end])
		f := strings.Fields(recv)
		ty := f[len(f)-1]
		ty = strings.TrimPrefix(ty, "*")
		if k := strings.Index(ty, "["); k >= 0 {
			ty = ty[:k]
		}
		c.Recv = ty
		if len(f) == 2 {
			c.Params = append(c.Params, f[0])
			c.PTypes = append(c.PTypes, f[1])
		} else {
			c.Params = append(c.Params, "_recv")
			c.PTypes = append(c.PTypes, f[0])
		}
		s = strings.TrimSpace(s[end+1:])
	}
	// name (possibly qualified for speclib: slices.Contains)
	i := 0
	for i < len(s) && (unicode.IsLetter(rune(s[i])) || unicode.IsDigit(rune(s[i])) || s[i] == '_' || s[i] == '.' || s[i] == '/') {
		i++
	}
	c.Name = s[:i]
	s = strings.TrimSpace(s[i:])
	if strings.HasPrefix(s, "[") {
		end := matchBracket(s, 0, '[', ']')
		s = strings.TrimSpace(s[end+1:])
	}
	if !strings.HasPrefix(s, "(") {
		return fmt.Errorf("expected params in %q", s)
	}
	end := matchParen(s, 0)
	if end < 0 {
		return fmt.Errorf("unbalanced params")
	}
	names, types := parseFieldList(s[1:end])
	c.Params = append(c.Params, names...)
	c.PTypes = append(c.PTypes, types...)
	s = strings.TrimSpace(s[end+1:])
	if s == "" {
		return nil
	}
	if strings.HasPrefix(s, "(") {
		end := matchParen(s, 0)
		c.Results, c.RTypes = parseFieldList(s[1:end])
	} else {
		c.Results = []string{"result"}
		c.RTypes = []string{s}
	}
	return nil
}

func matchParen(s string, at int) int { return matchBracket(s, at, '(', ')') }
func matchBracket(s string, at int, o, c byte) int {
	depth := 0
	for i := at; i < len(s); i++ {
		if s[i] == o {
			depth++
		} else if s[i] == c {
			depth--
			if depth == 0 {
				return i
			}
		}
	}
	return -1
}

// parseFieldList parses "a, b T, c U" -> names [a b c], types [T T U].
func parseFieldList(s string) ([]string, []string) {
	var names, types []string
	parts := splitTop(s, ',')
	var pending []string
	for _, p := range parts {
		p = strings.TrimSpace(p)
		if p == "" {
			continue
		}
		// "name Type" or "name" (type follows later)
		k := strings.IndexAny(p, " \t")
		if k < 0 {
			pending = append(pending, p)
			continue
		}
		name := p[:k]
		ty := strings.TrimSpace(p[k:])
		for _, pn := range pending {
			names = append(names, pn)
			types = append(types, ty)
		}
		pending = nil
		names = append(names, name)
		types = append(types, ty)
	}
	// unnamed leftovers are types only (e.g. "(bool)")
	for _, pn := range pending {
		names = append(names, "_")
		types = append(types, pn)
	}
	return names, types
}

// parseMacro parses `Name(a T, b U) [Ret] := expr`.
func parseMacro(kind, s string) (*Macro, error) {
	k := strings.Index(s, ":=")
	if k < 0 {
		return nil, fmt.Errorf("macro needs :=")
	}
	head := strings.TrimSpace(s[:k])
	body := strings.TrimSpace(s[k+2:])
	op := strings.Index(head, "(")
	cp := matchParen(head, op)
	if op < 0 || cp < 0 {
		return nil, fmt.Errorf("macro params")
	}
	m := &Macro{Name: strings.TrimSpace(head[:op]), Rec: kind == "recfn", Opaque: kind == "opred"}
	ps := strings.TrimSpace(head[op+1 : cp])
	if ps != "" {
		toks, err := lexSpec(ps)
		if err != nil {
			return nil, err
		}
		p := &sparser{toks: toks}
		var perr error
		func() {
			defer func() {
				if r := recover(); r != nil {
					perr = fmt.Errorf("%v", r)
				}
			}()
			m.Params = p.binders()
		}()
		if perr != nil {
			return nil, perr
		}
	}
	m.Ret = strings.TrimSpace(head[cp+1:])
	e, err := parseSpecExpr(body)
	if err != nil {
		return nil, err
	}
	m.Body = e
	return m, nil
}
