package main

// Evaluation of spec expressions to SMT terms.

import (
	"fmt"
	"go/token"
	"go/types"
	"strings"

	"golang.org/x/tools/go/packages"
)

type SpecEnv struct {
	fv       *FV
	names    map[string]Val
	cur, old *State
	pos      token.Pos
	pkg      *packages.Package
	tsub     map[string]types.Type
	bound    int
	loopHead bool
	inOld    bool
	macroDepth int
}

func (e *SpecEnv) with(name string, v Val) *SpecEnv {
	n := *e
	n.names = make(map[string]Val, len(e.names)+1)
	for k, x := range e.names {
		n.names[k] = x
	}
	n.names[name] = v
	return &n
}

func (e *SpecEnv) lookupType(name string) types.Type {
	if t, ok := e.tsub[name]; ok {
		return t
	}
	if e.pkg == nil {
		return nil
	}
	tv, err := types.Eval(e.fv.w.fset, e.pkg.Types, token.NoPos, name)
	if err != nil || !tv.IsType() {
		// try imports of the package by name: am.Time
		return nil
	}
	return tv.Type
}

func (e *SpecEnv) resolveType(text string) types.Type {
	if t, ok := e.tsub[text]; ok {
		return t
	}
	if strings.HasPrefix(text, "[]") {
		if et := e.resolveType(text[2:]); et != nil {
			return types.NewSlice(et)
		}
	}
	if strings.HasPrefix(text, "*") {
		if et := e.resolveType(text[1:]); et != nil {
			return types.NewPointer(et)
		}
	}
	if t := e.lookupType(text); t != nil {
		return t
	}
	// qualified name: find an imported package with that name
	if k := strings.Index(text, "."); k > 0 && e.pkg != nil {
		pn, tn := text[:k], text[k+1:]
		for _, imp := range e.pkg.Imports {
			if imp.Name == pn || e.fv.w.importAlias(e.pkg, imp.PkgPath) == pn {
				if o := imp.Types.Scope().Lookup(tn); o != nil {
					return o.Type()
				}
			}
		}
	}
	e.fv.unsupported("spec: cannot resolve type %q", text)
	return nil
}

func (fv *FV) evalSpecBool(env *SpecEnv, e SExpr) string {
	v := fv.evalSpec(env, e)
	if v.S != "Bool" {
		fv.unsupported("spec: boolean expected, got %s", v.S)
	}
	return v.T
}

func (fv *FV) evalSpec(env *SpecEnv, e SExpr) Val {
	// spec evaluation never creates obligations; under binders it must not
	// create facts or fresh constants either.
	if env.bound > 0 {
		fv.pure++
		defer func() { fv.pure-- }()
	}
	switch x := e.(type) {
	case SBool:
		if x.V {
			return Val{T: "true", S: "Bool"}
		}
		return Val{T: "false", S: "Bool"}
	case SInt:
		return Val{T: x.V, S: "Int", Go: types.Typ[types.Int]}
	case SStr:
		return Val{T: fv.sess.strLit(x.V), S: "Str", Go: types.Typ[types.String]}
	case SNil:
		return Val{T: "nil!Any", S: "Any"}
	case SIdent:
		return fv.specIdent(env, x.Name)
	case SOld:
		n := *env
		n.cur = env.old
		n.inOld = true
		return fv.evalSpec(&n, x.X)
	case SLet:
		v := fv.evalSpec(env, x.Val)
		return fv.evalSpec(env.with(x.Name, v), x.Body)
	case SUn:
		v := fv.evalSpec(env, x.X)
		switch x.Op {
		case "!":
			return Val{T: not(v.T), S: "Bool"}
		case "-":
			return Val{T: fmt.Sprintf("(- %s)", v.T), S: v.S, Go: v.Go}
		case "*":
			if v.Go != nil {
				if n, ok := types.Unalias(v.Go).(*types.Named); ok && n.Obj().Pkg() != nil && n.Obj().Pkg().Path() == "sync/atomic" && n.Obj().Name() == "Pointer" && n.TypeArgs().Len() == 1 {
					return fv.specDeref(env, v.T, n.TypeArgs().At(0))
				}
			}
			if v.Go == nil || !isPointer(v.Go) {
				fv.unsupported("spec: deref of non-pointer")
			}
			pe := types.Unalias(v.Go).Underlying().(*types.Pointer).Elem()
			return fv.specDeref(env, v.T, pe)
		}
	case SBin:
		return fv.specBin(env, x)
	case SCond:
		c := fv.evalSpecBool(env, x.C)
		a := fv.evalSpec(env, x.A)
		b := fv.evalSpec(env, x.B)
		a, b = fv.specUnify(a, b)
		return Val{T: ite(c, a.T, b.T), S: a.S, Go: a.Go}
	case SQuant:
		n := *env
		n.names = make(map[string]Val, len(env.names)+len(x.Vars))
		for k, v := range env.names {
			n.names[k] = v
		}
		n.bound = env.bound + 1
		var bs []string
		var guards []string
		for _, b := range x.Vars {
			t := env.resolveType(b.Type)
			s := fv.sess.sortOf(t)
			// unique binder names: a macro argument mentioning an outer bound
			// variable must not be captured by a binder of the macro body
			fv.bcount++
			bn := fmt.Sprintf("%s!%d!b", b.Name, fv.bcount)
			n.names[b.Name] = Val{T: bn, S: s, Go: t}
			bs = append(bs, fmt.Sprintf("(%s %s)", bn, s))
			if bt, ok := types.Unalias(t).Underlying().(*types.Basic); ok {
				if m := uintMod(bt); m != "" {
					guards = append(guards, fmt.Sprintf("(and (<= 0 %s) (< %s %s))", bn, bn, m))
				}
			}
		}
		fv.pure++
		body := fv.evalSpecBool(&n, x.Body)
		fv.pure--
		q := "forall"
		if !x.Forall {
			q = "exists"
			if len(guards) > 0 {
				body = and(append(guards, body)...)
			}
		} else if len(guards) > 0 {
			body = implies(and(guards...), body)
		}
		return Val{T: fmt.Sprintf("(%s (%s) %s)", q, strings.Join(bs, " "), body), S: "Bool"}
	case SSel:
		return fv.specSel(env, x)
	case SIndex:
		c := fv.evalSpec(env, x.X)
		i := fv.evalSpec(env, x.I)
		switch {
		case strings.HasPrefix(c.S, "(GSeq "):
			var et types.Type
			if c.Go != nil {
				et = elemType(underCore(c.Go))
			}
			return Val{T: fmt.Sprintf("(select (sq.arr %s) %s)", c.T, i.T), S: seqElemSort(c.S), Go: et}
		case strings.HasPrefix(c.S, "(GMap "):
			_, vs := mapSorts(c.S)
			var et types.Type
			if c.Go != nil {
				if mt, ok := underCore(c.Go).(*types.Map); ok {
					et = mt.Elem()
					i = fv.specConv(i, fv.sess.sortOf(mt.Key()))
				}
			}
			if et != nil {
				z := fv.zero(et)
				return Val{T: ite(fmt.Sprintf("(select (mp.dom %s) %s)", c.T, i.T), fmt.Sprintf("(select (mp.val %s) %s)", c.T, i.T), z.T), S: vs, Go: et}
			}
			return Val{T: fmt.Sprintf("(select (mp.val %s) %s)", c.T, i.T), S: vs, Go: et}
		case strings.HasPrefix(c.S, "(Array "):
			return Val{T: fmt.Sprintf("(select %s %s)", c.T, i.T), S: "Bool"}
		}
		fv.unsupported("spec: index on %s", c.S)
	case SSlice:
		c := fv.evalSpec(env, x.X)
		lo := "0"
		if x.Lo != nil {
			lo = fv.evalSpec(env, x.Lo).T
		}
		hi := fmt.Sprintf("(sq.len %s)", c.T)
		if x.Hi != nil {
			hi = fv.evalSpec(env, x.Hi).T
		}
		if lo != "0" {
			fv.unsupported("spec: slice with low bound")
		}
		return Val{T: fmt.Sprintf("((as mksq %s) (sq.arr %s) %s (sq.ref %s))", c.S, c.T, hi, c.T), S: c.S, Go: c.Go}
	case SCall:
		return fv.specCall(env, x)
	}
	fv.unsupported("spec expression %T", e)
	return Val{}
}

func (fv *FV) specConv(v Val, sort string) Val {
	if v.S == sort {
		return v
	}
	if sort == "Any" {
		return fv.convertTo(nil, v, types.NewInterfaceType(nil, nil))
	}
	return v
}

func (fv *FV) specUnify(a, b Val) (Val, Val) {
	if a.S == b.S {
		return a, b
	}
	if a.T == "nil!Any" && b.Go != nil {
		return fv.zero(b.Go), b
	}
	if b.T == "nil!Any" && a.Go != nil {
		return a, fv.zero(a.Go)
	}
	return a, b
}

func (fv *FV) specIdent(env *SpecEnv, name string) Val {
	// inside the body (loop invariants) a name denotes the variable's current
	// value; parameters that the body reassigns differ from their entry value,
	// which stays available as old(name)
	if env.pos.IsValid() && env.pkg != nil && !env.inOld && env.bound >= 0 {
		if _, isBound := env.names[name]; isBound || true {
			if sc := env.pkg.Types.Scope().Innermost(env.pos); sc != nil {
				if _, obj := sc.LookupParent(name, env.pos); obj != nil {
					if v, ok := env.cur.vars[obj]; ok {
						if bv, isB := env.names[name]; !isB || !strings.HasSuffix(bv.T, "!b") {
							return v
						}
					}
				}
			}
		}
	}
	if v, ok := env.names[name]; ok {
		return v
	}
	switch name {
	case "MaxU64":
		return Val{T: "18446744073709551615", S: "Int", Go: types.Typ[types.Uint64]}
	case "alloc0":
		return Val{T: "alloc0", S: "Int"}
	}
	// local variable of the function at the given position
	if env.pos.IsValid() && env.pkg != nil {
		if sc := env.pkg.Types.Scope().Innermost(env.pos); sc != nil {
			if _, obj := sc.LookupParent(name, env.pos); obj != nil {
				st := env.cur
				if v, ok := st.vars[obj]; ok {
					return v
				}
			}
		}
		// fall back: any live variable with that name (declared later in an
		// inner scope, e.g. loop body variables are not visible at loop head)
		var found *Val
		for o, v := range env.cur.vars {
			if o.Name() == name {
				vv := v
				if found != nil && found.T != vv.T {
					fv.unsupported("spec: ambiguous local %q", name)
				}
				found = &vv
			}
		}
		if found != nil {
			return *found
		}
	}
	if !env.pos.IsValid() && env.cur != nil && env.macroDepth == 0 {
		// postconditions may mention a local variable of the body by name: its
		// value at exit (only if the name is unambiguous)
		var found *Val
		for o, v := range env.cur.vars {
			if o.Name() == name {
				vv := v
				if found != nil && found.T != vv.T {
					fv.unsupported("spec: ambiguous local %q in postcondition", name)
				}
				found = &vv
			}
		}
		if found != nil {
			return *found
		}
	}
	// package-level constant or variable
	if env.pkg != nil {
		if o := env.pkg.Types.Scope().Lookup(name); o != nil {
			switch oo := o.(type) {
			case *types.Const:
				return fv.constVal(oo.Val(), oo.Type())
			case *types.Var:
				return fv.readGlobal(env.cur, oo)
			}
		}
	}
	fv.unsupported("spec: unknown identifier %q", name)
	return Val{}
}

func (fv *FV) specDeref(env *SpecEnv, ref string, pe types.Type) Val {
	return fv.derefStruct(env.cur, ref, pe)
}

// ghostKey: ghost variables are integer-valued global locations written only
// by `ghostset` clauses of contracts.
func ghostKey(name string) string { return "G:ghost." + name }

func (fv *FV) ghostGet(st *State, name string) Val {
	h := fv.heapGet(st, ghostKey(name), "Int", types.Typ[types.Int])
	return Val{T: h.T, S: "Int", Go: types.Typ[types.Int]}
}

func (fv *FV) specSel(env *SpecEnv, x SSel) Val {
	if id, ok := x.X.(SIdent); ok && id.Name == "ghost" {
		if _, bound := env.names["ghost"]; !bound {
			return fv.ghostGet(env.cur, x.Sel)
		}
	}
	// qualified constant? pkg.Name
	if id, ok := x.X.(SIdent); ok {
		if _, bound := env.names[id.Name]; !bound && env.pkg != nil {
			for _, imp := range env.pkg.Imports {
				if imp.Name == id.Name || fv.w.importAlias(env.pkg, imp.PkgPath) == id.Name {
					if o := imp.Types.Scope().Lookup(x.Sel); o != nil {
						switch oo := o.(type) {
						case *types.Const:
							return fv.constVal(oo.Val(), oo.Type())
						case *types.Var:
							return fv.readGlobal(env.cur, oo)
						}
					}
				}
			}
		}
	}
	base := fv.evalSpec(env, x.X)
	if base.Go == nil {
		fv.unsupported("spec: selector .%s on value without Go type", x.Sel)
	}
	// atomic.Pointer[T] holds a *T: field selection goes through it
	if n, ok := types.Unalias(base.Go).(*types.Named); ok && n.Obj().Pkg() != nil && n.Obj().Pkg().Path() == "sync/atomic" && n.Obj().Name() == "Pointer" && n.TypeArgs() != nil && n.TypeArgs().Len() == 1 && base.S == "Int" {
		base.Go = types.NewPointer(n.TypeArgs().At(0))
	}
	// find field (including promoted through embedded structs)
	obj, index, _ := types.LookupFieldOrMethod(base.Go, true, env.pkgTypes(), x.Sel)
	f, ok := obj.(*types.Var)
	if !ok {
		// try unexported field of another package
		if stt := structOf(base.Go); stt != nil {
			for i := 0; i < stt.NumFields(); i++ {
				if stt.Field(i).Name() == x.Sel {
					f = stt.Field(i)
					index = []int{i}
					ok = true
				}
			}
		}
		if !ok {
			fv.unsupported("spec: no field %s in %s", x.Sel, base.Go)
		}
	}
	cur := base
	ct := base.Go
	for _, idx := range index {
		stt := structOf(ct)
		ff := stt.Field(idx)
		if isPointer(ct) {
			owner := namedOf(ct)
			es := fv.sess.sortOf(ff.Type())
			h := fv.heapGet(env.cur, fieldKey(owner, ff), es, ff.Type())
			cur = Val{T: fmt.Sprintf("(select %s %s)", h.T, cur.T), S: es, Go: ff.Type()}
			if env.bound == 0 && fv.pure == 0 {
				if inv := fv.typeInv(cur.T, ff.Type(), 1); inv != "true" {
					fv.sess.fact(inv)
				}
			}
		} else {
			sname := fv.sess.sortOf(ct)
			cur = Val{T: fmt.Sprintf("(%s.%s %s)", sname, sanitize(ff.Name()), cur.T), S: fv.sess.sortOf(ff.Type()), Go: ff.Type()}
		}
		ct = ff.Type()
	}
	_ = f
	return cur
}

func (e *SpecEnv) pkgTypes() *types.Package {
	if e.pkg != nil {
		return e.pkg.Types
	}
	return nil
}

func (fv *FV) specBin(env *SpecEnv, x SBin) Val {
	switch x.Op {
	case "&&":
		return Val{T: and(fv.evalSpecBool(env, x.X), fv.evalSpecBool(env, x.Y)), S: "Bool"}
	case "||":
		return Val{T: or(fv.evalSpecBool(env, x.X), fv.evalSpecBool(env, x.Y)), S: "Bool"}
	case "==>":
		return Val{T: implies(fv.evalSpecBool(env, x.X), fv.evalSpecBool(env, x.Y)), S: "Bool"}
	case "<==>":
		return Val{T: fmt.Sprintf("(= %s %s)", fv.evalSpecBool(env, x.X), fv.evalSpecBool(env, x.Y)), S: "Bool"}
	}
	a := fv.evalSpec(env, x.X)
	b := fv.evalSpec(env, x.Y)
	a, b = fv.specUnify(a, b)
	switch x.Op {
	case "==":
		return Val{T: fv.eqVals(a, b), S: "Bool"}
	case "!=":
		return Val{T: not(fv.eqVals(a, b)), S: "Bool"}
	case "<", "<=", ">", ">=":
		return Val{T: fmt.Sprintf("(%s %s %s)", x.Op, a.T, b.T), S: "Bool"}
	case "+", "-", "*":
		// spec arithmetic is mathematical
		if a.S == "Str" && x.Op == "+" {
			return Val{T: fmt.Sprintf("(strcat %s %s)", a.T, b.T), S: "Str", Go: a.Go}
		}
		return Val{T: fmt.Sprintf("(%s %s %s)", x.Op, a.T, b.T), S: "Int", Go: types.Typ[types.Int]}
	case "/":
		return Val{T: fmt.Sprintf("(div %s %s)", a.T, b.T), S: "Int", Go: types.Typ[types.Int]}
	case "%":
		return Val{T: fmt.Sprintf("(mod %s %s)", a.T, b.T), S: "Int", Go: types.Typ[types.Int]}
	}
	fv.unsupported("spec: operator %s", x.Op)
	return Val{}
}

func (fv *FV) specCall(env *SpecEnv, x SCall) Val {
	// method-style spec calls: x.Sum(...)? not supported; only function names
	name := ""
	switch f := x.Fun.(type) {
	case SIdent:
		name = f.Name
	case SSel:
		// pure method call on a value: recv.Method(args)
		recv := fv.evalSpec(env, f.X)
		return fv.specPureCall(env, f.Sel, &recv, x.Args)
	default:
		fv.unsupported("spec: call form")
	}
	arg := func(i int) Val { return fv.evalSpec(env, x.Args[i]) }
	switch name {
	case "len":
		v := arg(0)
		switch {
		case strings.HasPrefix(v.S, "(GSeq "):
			return Val{T: fmt.Sprintf("(sq.len %s)", v.T), S: "Int", Go: types.Typ[types.Int]}
		case v.S == "Str":
			return Val{T: fmt.Sprintf("(strlen %s)", v.T), S: "Int", Go: types.Typ[types.Int]}
		}
		fv.unsupported("spec: len of %s", v.S)
	case "mem":
		s, v := arg(0), arg(1)
		return Val{T: fmt.Sprintf("(%s %s %s)", fv.sess.fnMem(seqElemSort(s.S)), s.T, v.T), S: "Bool"}
	case "maplen":
		v := arg(0)
		k, vv := mapSorts(v.S)
		fn := "maplen_" + sanitize(k) + "_" + sanitize(vv)
		fv.sess.decl("fn:"+fn, fmt.Sprintf("(declare-fun %s (%s) Int)", fn, v.S))
		return Val{T: fmt.Sprintf("(%s %s)", fn, v.T), S: "Int", Go: types.Typ[types.Int]}
	case "index":
		sq, v := arg(0), arg(1)
		return Val{T: fmt.Sprintf("(%s %s %s)", fv.sess.fnIndex(seqElemSort(sq.S)), sq.T, v.T), S: "Int", Go: types.Typ[types.Int]}
	case "nodup":
		s := arg(0)
		return Val{T: fmt.Sprintf("(%s %s)", fv.sess.fnNodup(seqElemSort(s.S)), s.T), S: "Bool"}
	case "subset":
		a, b := arg(0), arg(1)
		return Val{T: fmt.Sprintf("(%s %s %s)", fv.sess.fnSubset(seqElemSort(a.S)), a.T, b.T), S: "Bool"}
	case "seteq":
		a, b := arg(0), arg(1)
		f := fv.sess.fnSubset(seqElemSort(a.S))
		return Val{T: fmt.Sprintf("(and (%s %s %s) (%s %s %s))", f, a.T, b.T, f, b.T, a.T), S: "Bool"}
	case "seqeq":
		a, b := arg(0), arg(1)
		return Val{T: fmt.Sprintf("(%s %s %s)", fv.sess.fnSeqeq(seqElemSort(a.S)), a.T, b.T), S: "Bool"}
	case "odd":
		return Val{T: fmt.Sprintf("(= (mod %s 2) 1)", arg(0).T), S: "Bool"}
	case "u8":
		return Val{T: fmt.Sprintf("(mod %s 256)", arg(0).T), S: "Int", Go: types.Typ[types.Uint8]}
	case "u16":
		return Val{T: fmt.Sprintf("(mod %s 65536)", arg(0).T), S: "Int", Go: types.Typ[types.Uint16]}
	case "u32":
		return Val{T: fmt.Sprintf("(mod %s 4294967296)", arg(0).T), S: "Int", Go: types.Typ[types.Uint32]}
	case "u64":
		return Val{T: fmt.Sprintf("(mod %s 18446744073709551616)", arg(0).T), S: "Int", Go: types.Typ[types.Uint64]}
	case "isnil":
		return Val{T: fv.isNil(arg(0)), S: "Bool"}
	case "fresh":
		v := arg(0)
		switch {
		case strings.HasPrefix(v.S, "(GSeq "):
			return Val{T: fmt.Sprintf("(or (= (sq.ref %s) 0) (> (sq.ref %s) alloc0))", v.T, v.T), S: "Bool"}
		case strings.HasPrefix(v.S, "(GMap "):
			return Val{T: fmt.Sprintf("(or (= (mp.ref %s) 0) (> (mp.ref %s) alloc0))", v.T, v.T), S: "Bool"}
		case v.S == "Int":
			return Val{T: fmt.Sprintf("(> %s alloc0)", v.T), S: "Bool"}
		}
		fv.unsupported("spec: fresh of %s", v.S)
	case "sameref":
		a, b := arg(0), arg(1)
		switch {
		case strings.HasPrefix(a.S, "(GSeq "):
			return Val{T: fmt.Sprintf("(= (sq.ref %s) (sq.ref %s))", a.T, b.T), S: "Bool"}
		case strings.HasPrefix(a.S, "(GMap "):
			return Val{T: fmt.Sprintf("(= (mp.ref %s) (mp.ref %s))", a.T, b.T), S: "Bool"}
		}
	case "has":
		m, k := arg(0), arg(1)
		if m.Go != nil {
			if mt, ok := underCore(m.Go).(*types.Map); ok {
				k = fv.specConv(k, fv.sess.sortOf(mt.Key()))
			}
		}
		return Val{T: fmt.Sprintf("(select (mp.dom %s) %s)", m.T, k.T), S: "Bool"}
	case "mapeq":
		a, b := arg(0), arg(1)
		return Val{T: fmt.Sprintf("(and (= (mp.dom %s) (mp.dom %s)) (= (mp.val %s) (mp.val %s)))", a.T, b.T, a.T, b.T), S: "Bool"}
	case "closed":
		c := arg(0)
		return Val{T: fv.chanClosed(env.cur, c.T), S: "Bool"}
	case "locked":
		// locked(mx) == this thread holds mx for writing; rlocked: reading or writing
		return Val{T: fmt.Sprintf("(= %s 2)", arg(0).T), S: "Bool"}
	case "rlocked":
		return Val{T: fmt.Sprintf("(>= %s 1)", arg(0).T), S: "Bool"}
	case "unlocked":
		return Val{T: fmt.Sprintf("(= %s 0)", arg(0).T), S: "Bool"}
	case "prefix":
		return Val{T: fmt.Sprintf("(s.prefix %s %s)", arg(0).T, arg(1).T), S: "Bool"}
	case "suffix":
		return Val{T: fmt.Sprintf("(s.suffix %s %s)", arg(0).T, arg(1).T), S: "Bool"}
	case "min":
		a, b := arg(0), arg(1)
		return Val{T: fmt.Sprintf("(ite (< %s %s) %s %s)", a.T, b.T, a.T, b.T), S: "Int", Go: a.Go}
	case "max":
		a, b := arg(0), arg(1)
		return Val{T: fmt.Sprintf("(ite (> %s %s) %s %s)", a.T, b.T, a.T, b.T), S: "Int", Go: a.Go}
	case "int":
		v := arg(0)
		return Val{T: v.T, S: "Int", Go: types.Typ[types.Int]}
	case "post":
		// post(p): final value of a slice parameter that the callee modifies in place
		id, ok := x.Args[0].(SIdent)
		if !ok {
			fv.unsupported("spec: post() takes a parameter name")
		}
		if v, ok := env.names["post:"+id.Name]; ok {
			return v
		}
		fv.unsupported("spec: post(%s) not available here", id.Name)
	case "unchanged":
		var parts []string
		for i := range x.Args {
			a := fv.evalSpec(env, x.Args[i])
			n := *env
			n.cur = env.old
			b := fv.evalSpec(&n, x.Args[i])
			parts = append(parts, fv.specSame(a, b))
		}
		return Val{T: and(parts...), S: "Bool"}
	case "same":
		return Val{T: fv.specSame(arg(0), arg(1)), S: "Bool"}
	}
	// macro?
	if m := fv.w.macroFor(name, env.pkg); m != nil {
		return fv.expandMacro(env, m, x.Args)
	}
	// closure / func param applied in spec
	if v, ok := env.names[name]; ok && v.Clos != nil {
		fv.checkClosurePure(v.Clos, name)
		var args []Val
		for i := range x.Args {
			args = append(args, arg(i))
		}
		fv.pure++
		defer func() { fv.pure-- }()
		r := fv.callClosure(env.cur.clone(), v.Clos, args, nil)
		if len(r) == 0 {
			fv.unsupported("spec: closure without result")
		}
		return r[0]
	}
	if v, ok := env.names[name]; ok && v.S == "Any" && v.Go != nil {
		// opaque function parameter applied in spec: uninterpreted application
		if sig, ok := v.Go.Underlying().(*types.Signature); ok && sig.Results().Len() == 1 {
			var args []Val
			for i := range x.Args {
				a := arg(i)
				if i < sig.Params().Len() {
					a = fv.specConv(a, fv.sess.sortOf(sig.Params().At(i).Type()))
				}
				args = append(args, a)
			}
			return fv.applyUF(v, args, sig.Results().At(0).Type())
		}
	}
	return fv.specPureCall(env, name, nil, x.Args)
}

// specSame: structural equality suited to the sort (sequences compare by
// content, not by backing-array junk).
func (fv *FV) specSame(a, b Val) string {
	switch {
	case strings.HasPrefix(a.S, "(GSeq "):
		return fmt.Sprintf("(%s %s %s)", fv.sess.fnSeqeq(seqElemSort(a.S)), a.T, b.T)
	case strings.HasPrefix(a.S, "(GMap "):
		return fmt.Sprintf("(and (= (mp.dom %s) (mp.dom %s)) (= (mp.val %s) (mp.val %s)))", a.T, b.T, a.T, b.T)
	}
	return fmt.Sprintf("(= %s %s)", a.T, b.T)
}

func (fv *FV) expandMacro(env *SpecEnv, m *Macro, args []SExpr) Val {
	if len(args) != len(m.Params) {
		fv.unsupported("spec: macro %s arity", m.Name)
	}
	if m.Rec {
		return fv.recFnApp(env, m, args)
	}
	if m.Opaque {
		return fv.opaquePredApp(env, m, args)
	}
	if m.Ufn {
		menv := &SpecEnv{fv: fv, names: map[string]Val{}, cur: env.cur, old: env.old, pkg: fv.w.pkgOf(m.Pkg), tsub: env.tsub}
		if menv.pkg == nil {
			menv.pkg = env.pkg
		}
		var sorts, ts []string
		for i, p := range m.Params {
			t := menv.resolveType(p.Type)
			a := fv.specConv(fv.evalSpec(env, args[i]), fv.sess.sortOf(t))
			sorts = append(sorts, fv.sess.sortOf(t))
			ts = append(ts, a.T)
		}
		rt := menv.resolveType(m.Ret)
		rs := fv.sess.sortOf(rt)
		name := "uf_" + m.Name
		fv.sess.decl("fn:"+name, fmt.Sprintf("(declare-fun %s (%s) %s)", name, strings.Join(sorts, " "), rs))
		return Val{T: fmt.Sprintf("(%s %s)", name, strings.Join(ts, " ")), S: rs, Go: rt}
	}
	if env.macroDepth > 20 {
		fv.unsupported("spec: macro recursion %s (use recfn)", m.Name)
	}
	n := *env
	n.names = make(map[string]Val, len(env.names)+len(args))
	// macro body sees only its parameters (and globals), evaluated in caller env
	for i, p := range m.Params {
		n.names[p.Name] = fv.evalSpec(env, args[i])
	}
	n.macroDepth++
	n.pkg = fv.w.pkgOf(m.Pkg)
	if n.pkg == nil {
		n.pkg = env.pkg
	}
	n.pos = token.NoPos
	return fv.evalSpec(&n, m.Body)
}

// recFnApp: recursive spec function as define-fun-rec over its parameters
// (parameters must be pure values: no heap access in the body).
func (fv *FV) recFnApp(env *SpecEnv, m *Macro, args []SExpr) Val {
	name := "rf_" + m.Name
	var avals []Val
	for i := range args {
		avals = append(avals, fv.evalSpec(env, args[i]))
	}
	if !fv.sess.declSet["fn:"+name] {
		fv.sess.declSet["fn:"+name] = true
		menv := &SpecEnv{fv: fv, names: map[string]Val{}, cur: env.cur, old: env.old, pkg: fv.w.pkgOf(m.Pkg), tsub: env.tsub, bound: 1}
		if menv.pkg == nil {
			menv.pkg = env.pkg
		}
		var ps []string
		for _, p := range m.Params {
			t := menv.resolveType(p.Type)
			s := fv.sess.sortOf(t)
			menv.names[p.Name] = Val{T: p.Name + "!p", S: s, Go: t}
			ps = append(ps, fmt.Sprintf("(%s!p %s)", p.Name, s))
		}
		rt := menv.resolveType(m.Ret)
		rs := fv.sess.sortOf(rt)
		fv.w.recRet[name] = Val{S: rs, Go: rt}
		fv.pure++
		body := fv.evalSpec(menv, m.Body)
		fv.pure--
		fv.sess.decls = append(fv.sess.decls, fmt.Sprintf("(define-fun-rec %s (%s) %s %s)", name, strings.Join(ps, " "), rs, body.T))
	}
	var ts []string
	for _, a := range avals {
		ts = append(ts, a.T)
	}
	r := fv.w.recRet[name]
	return Val{T: fmt.Sprintf("(%s %s)", name, strings.Join(ts, " ")), S: r.S, Go: r.Go}
}

// specPureCall: application of a function declared `pure` in a contract:
// an uninterpreted function of its (value) arguments, axiomatised by the
// contract's ensures at every real call site and by instantiation here.
func (fv *FV) specPureCall(env *SpecEnv, name string, recv *Val, args []SExpr) Val {
	var c *Contract
	if recv != nil && recv.Go != nil {
		if n := namedOf(recv.Go); n != nil && n.Obj().Pkg() != nil {
			c = fv.w.contractFor(n.Obj().Pkg().Path() + "." + n.Obj().Name() + "." + name)
		}
	} else if env.pkg != nil {
		c = fv.w.contractFor(env.pkg.PkgPath + "." + name)
	}
	if c == nil || !c.Pure {
		fv.unsupported("spec: unknown function %q (not a builtin, macro or pure contract)", name)
	}
	if c == fv.contract {
		fv.unsupported("spec: pure function %q used in its own contract", name)
	}
	var vals []Val
	if recv != nil {
		vals = append(vals, *recv)
	}
	for i := range args {
		vals = append(vals, fv.evalSpec(env, args[i]))
	}
	return fv.pureApp(c, vals, env)
}

func (fv *FV) pureApp(c *Contract, vals []Val, env *SpecEnv) Val {
	fn := "pf_" + sanitize(shortName(c.Key()))
	cpkg := fv.w.pkgOf(c.Pkg)
	cenv := &SpecEnv{fv: fv, names: map[string]Val{}, cur: env.cur, old: env.old, pkg: cpkg, tsub: env.tsub}
	if len(c.RTypes) != 1 {
		fv.unsupported("pure function %s must have exactly one result", c.Key())
	}
	rt := cenv.resolveType(c.RTypes[0])
	rs := fv.sess.sortOf(rt)
	var sorts, ts []string
	for _, v := range vals {
		sorts = append(sorts, v.S)
		ts = append(ts, v.T)
	}
	if !fv.sess.declSet["fn:"+fn] {
		fv.sess.decl("fn:"+fn, fmt.Sprintf("(declare-fun %s (%s) %s)", fn, strings.Join(sorts, " "), rs))
		// axiom: forall args. requires ==> ensures[result := fn(args)]
		aenv := &SpecEnv{fv: fv, names: map[string]Val{}, cur: env.cur, old: env.cur, pkg: cpkg, tsub: env.tsub, bound: 1}
		var bs, bts []string
		var guards []string
		for i, p := range c.Params {
			if i >= len(vals) {
				break
			}
			bn := p + "!a"
			aenv.names[p] = Val{T: bn, S: vals[i].S, Go: vals[i].Go}
			bs = append(bs, fmt.Sprintf("(%s %s)", bn, vals[i].S))
			bts = append(bts, bn)
			if vals[i].Go != nil {
				// only scalar ranges guard the axiom; structural invariants of
				// sequences/structs are not needed by functional postconditions
				if _, isBasic := types.Unalias(vals[i].Go).Underlying().(*types.Basic); isBasic {
					if g := fv.typeInv(bn, vals[i].Go, 0); g != "true" {
						guards = append(guards, g)
					}
				}
			}
		}
		app := fmt.Sprintf("(%s %s)", fn, strings.Join(bts, " "))
		aenv.names[c.Results[0]] = Val{T: app, S: rs, Go: rt}
		fv.pure++
		var pre, post []string
		for _, r := range c.Requires {
			pre = append(pre, fv.evalSpecBool(aenv, r.Expr))
		}
		for _, e := range c.Ensures {
			post = append(post, fv.evalSpecBool(aenv, e.Expr))
		}
		if ri := fv.typeInv(app, rt, 0); ri != "true" {
			post = append(post, ri)
		}
		fv.pure--
		if len(post) > 0 {
			fv.sess.decls = append(fv.sess.decls, fmt.Sprintf("(assert (forall (%s) (! (=> %s %s) :pattern (%s))))", strings.Join(bs, " "), and(append(guards, pre...)...), and(post...), app))
		}
		fv.assumed["pure function axiom from contract: "+c.Key()] = true
	}
	return Val{T: fmt.Sprintf("(%s %s)", fn, strings.Join(ts, " ")), S: rs, Go: rt}
}

// checkClosurePure: a closure that instantiates `fn(...)` of a callee contract
// must not assign anything that outlives the call.
func (fv *FV) checkClosurePure(c *Closure, name string) {
	if c.Lit == nil {
		return
	}
	saved := fv.fn
	fv.fn = &fnCtx{pkg: c.Pkg, sig: c.Pkg.TypesInfo.TypeOf(c.Lit).(*types.Signature)}
	ms := fv.modifies(c.Lit.Body)
	fv.fn = saved
	for o := range ms.vars {
		if fv.contract != nil {
			skip := false
			for _, ir := range fv.contract.Irrelevant {
				if ir == o.Name() {
					skip = true
				}
			}
			if skip {
				continue
			}
		}
		if o.Pos() < c.Lit.Pos() || o.Pos() > c.Lit.End() {
			fv.unsupported("closure passed as %s assigns captured variable %s: the callee contract cannot be used (impure closure)", name, o.Name())
		}
	}
	if len(ms.heap) > 0 || ms.heapAll {
		fv.unsupported("closure passed as %s assigns heap state: the callee contract cannot be used (impure closure)", name)
	}
}

// opaquePredApp: a predicate over values kept as an uninterpreted symbol with
// a trigger-guarded definition, so that its applications can serve as
// instantiation triggers (its body must not read the heap).
func (fv *FV) opaquePredApp(env *SpecEnv, m *Macro, args []SExpr) Val {
	name := "op_" + m.Name
	var avals []Val
	for i := range args {
		avals = append(avals, fv.evalSpec(env, args[i]))
	}
	if !fv.sess.declSet["fn:"+name] {
		fv.sess.declSet["fn:"+name] = true
		menv := &SpecEnv{fv: fv, names: map[string]Val{}, cur: &State{pc: "true", vars: map[types.Object]Val{}, heap: map[string]Val{}}, pkg: fv.w.pkgOf(m.Pkg), tsub: env.tsub, bound: 1}
		menv.old = menv.cur
		if menv.pkg == nil {
			menv.pkg = env.pkg
		}
		var ps, sorts, names []string
		for _, p := range m.Params {
			t := menv.resolveType(p.Type)
			s := fv.sess.sortOf(t)
			menv.names[p.Name] = Val{T: p.Name + "!o", S: s, Go: t}
			ps = append(ps, fmt.Sprintf("(%s!o %s)", p.Name, s))
			sorts = append(sorts, s)
			names = append(names, p.Name+"!o")
		}
		fv.pure++
		body := fv.evalSpecBool(menv, m.Body)
		fv.pure--
		app := fmt.Sprintf("(%s %s)", name, strings.Join(names, " "))
		fv.sess.decls = append(fv.sess.decls,
			fmt.Sprintf("(declare-fun %s (%s) Bool)", name, strings.Join(sorts, " ")),
			fmt.Sprintf("(assert (forall (%s) (! (= %s %s) :pattern (%s))))", strings.Join(ps, " "), app, body, app))
	}
	var ts []string
	for _, a := range avals {
		ts = append(ts, a.T)
	}
	return Val{T: fmt.Sprintf("(%s %s)", name, strings.Join(ts, " ")), S: "Bool"}
}
