package main

// World: loaded packages, contract database, per-function verification driver.

import (
	"fmt"
	"go/ast"
	"go/token"
	"go/types"
	"os"
	"path/filepath"
	"sort"
	"strings"

	"golang.org/x/tools/go/packages"
)

type declInfo struct {
	decl *ast.FuncDecl
	pkg  *packages.Package
}

type World struct {
	fset      *token.FileSet
	pkgs      map[string]*packages.Package // by path
	roots     []*packages.Package
	decls     map[*types.Func]*declInfo
	declsByName map[string]*declInfo
	contracts map[string]*Contract // by Key()
	macros    map[string][]*Macro
	axioms    []*Axiom
	specFiles []*SpecFile
	heapSorts map[string]Val
	allocs    map[*FV][]string
	inlining  map[*types.Func]bool
	closureLits map[types.Object]*ast.FuncLit
	trustedPure []string
	guards      map[string]*Guard // field key -> guard
	ownership   map[string]bool   // field key of the atomic.Bool ownership token
	recRet    map[string]Val
	loadErrs  []string
	aliases   map[string]map[string]string // pkgpath -> import path -> local name
}

const repoModule = "github.com/pancsta/asyncmachine-go"

func loadWorld(repo string, patterns []string, overlay map[string][]byte) (*World, error) {
	cfg := &packages.Config{
		Mode: packages.NeedName | packages.NeedFiles | packages.NeedSyntax | packages.NeedTypes |
			packages.NeedTypesInfo | packages.NeedImports | packages.NeedDeps | packages.NeedModule,
		Dir:     repo,
		Env:     append(os.Environ(), "GOFLAGS=-mod=mod", "GOPROXY=off"),
		Overlay: overlay,
	}
	pkgs, err := packages.Load(cfg, patterns...)
	if err != nil {
		return nil, err
	}
	w := &World{
		pkgs: map[string]*packages.Package{}, decls: map[*types.Func]*declInfo{}, declsByName: map[string]*declInfo{},
		contracts: map[string]*Contract{}, macros: map[string][]*Macro{}, heapSorts: map[string]Val{}, guards: map[string]*Guard{}, ownership: map[string]bool{},
		allocs: map[*FV][]string{}, inlining: map[*types.Func]bool{}, closureLits: map[types.Object]*ast.FuncLit{},
		recRet: map[string]Val{}, aliases: map[string]map[string]string{},
	}
	w.roots = pkgs
	packages.Visit(pkgs, nil, func(p *packages.Package) {
		w.pkgs[p.PkgPath] = p
		if w.fset == nil {
			w.fset = p.Fset
		}
		for _, e := range p.Errors {
			if strings.HasPrefix(p.PkgPath, repoModule) {
				w.loadErrs = append(w.loadErrs, e.Error())
			}
		}
		if p.TypesInfo == nil {
			return
		}
		// only index function bodies of the repository (and a few small
		// stdlib packages are handled by builtin models)
		if !strings.HasPrefix(p.PkgPath, repoModule) {
			return
		}
		al := map[string]string{}
		for _, f := range p.Syntax {
			for _, imp := range f.Imports {
				if imp.Name != nil {
					al[strings.Trim(imp.Path.Value, `"`)] = imp.Name.Name
				}
			}
			for _, d := range f.Decls {
				fd, ok := d.(*ast.FuncDecl)
				if !ok {
					continue
				}
				if fn, ok := p.TypesInfo.Defs[fd.Name].(*types.Func); ok {
					di := &declInfo{fd, p}
					w.decls[fn] = di
					w.declsByName[funcFullName(fn)] = di
				}
			}
			// closure literals bound to local variables (for modifies analysis)
			ast.Inspect(f, func(n ast.Node) bool {
				as, ok := n.(*ast.AssignStmt)
				if !ok || len(as.Lhs) != len(as.Rhs) {
					return true
				}
				for i, r := range as.Rhs {
					if lit, ok := r.(*ast.FuncLit); ok {
						if id, ok := as.Lhs[i].(*ast.Ident); ok {
							if o := p.TypesInfo.Defs[id]; o != nil {
								w.closureLits[o] = lit
							} else if o := p.TypesInfo.Uses[id]; o != nil {
								w.closureLits[o] = lit
							}
						}
					}
				}
				return true
			})
		}
		w.aliases[p.PkgPath] = al
	})
	return w, nil
}

func (w *World) importAlias(p *packages.Package, path string) string {
	if a, ok := w.aliases[p.PkgPath]; ok {
		return a[path]
	}
	return ""
}

func (w *World) declOf(fn *types.Func) *declInfo {
	if fn == nil {
		return nil
	}
	if d, ok := w.decls[fn.Origin()]; ok {
		return d
	}
	return w.declsByName[funcFullName(fn)]
}

func (w *World) pkgOf(path string) *packages.Package { return w.pkgs[path] }

func (w *World) contractFor(full string) *Contract { return w.contracts[full] }

func (w *World) macroFor(name string, pkg *packages.Package) *Macro {
	ms := w.macros[name]
	if len(ms) == 0 {
		return nil
	}
	if pkg != nil {
		for _, m := range ms {
			if m.Pkg == pkg.PkgPath {
				return m
			}
		}
	}
	return ms[0]
}

func (w *World) isTrustedPure(full string) bool {
	for _, t := range w.trustedPure {
		if strings.HasSuffix(t, "*") {
			if strings.HasPrefix(full, strings.TrimSuffix(t, "*")) {
				return true
			}
		} else if t == full {
			return true
		}
	}
	return false
}

// keysForFieldName: heap keys whose field name matches (used for loop havoc
// from callee frames).
func (w *World) keysForFieldName(name string) []string {
	var out []string
	for _, p := range w.pkgs {
		if !strings.HasPrefix(p.PkgPath, repoModule) || p.Types == nil {
			continue
		}
		sc := p.Types.Scope()
		for _, n := range sc.Names() {
			tn, ok := sc.Lookup(n).(*types.TypeName)
			if !ok {
				continue
			}
			nt, ok := tn.Type().(*types.Named)
			if !ok {
				continue
			}
			st, ok := nt.Underlying().(*types.Struct)
			if !ok {
				continue
			}
			for i := 0; i < st.NumFields(); i++ {
				if st.Field(i).Name() == name {
					out = append(out, fieldKey(nt, st.Field(i)))
				}
			}
		}
	}
	sort.Strings(out)
	return out
}

// loadSpecs reads contract files: zz_contracts_verif.go next to each loaded
// repository package, and /verif/speclib/*.gocv.
func (w *World) loadSpecs(speclib string) error {
	var files [][2]string
	for _, p := range w.pkgs {
		if !strings.HasPrefix(p.PkgPath, repoModule) || len(p.GoFiles) == 0 {
			continue
		}
		dir := filepath.Dir(p.GoFiles[0])
		ms, _ := filepath.Glob(filepath.Join(dir, "zz_contracts*_verif.go"))
		for _, m := range ms {
			files = append(files, [2]string{m, p.PkgPath})
		}
	}
	ms, _ := filepath.Glob(filepath.Join(speclib, "*.gocv"))
	for _, m := range ms {
		files = append(files, [2]string{m, ""})
	}
	sort.Slice(files, func(i, j int) bool { return files[i][0] < files[j][0] })
	for _, f := range files {
		sf, err := parseSpecFile(f[0], f[1])
		if err != nil {
			return err
		}
		w.specFiles = append(w.specFiles, sf)
		for _, c := range sf.Contracts {
			if !c.IsLemma && c.Pkg == "" {
				// speclib: qualified name "slices.Contains"
				k := strings.LastIndex(c.Name, ".")
				if k > 0 {
					c.Pkg = c.Name[:k]
					c.Name = c.Name[k+1:]
				}
			}
			key := c.Key()
			if c.IsLemma {
				key = "lemma:" + c.Pkg + "." + c.Name
			}
			if _, dup := w.contracts[key]; dup {
				return fmt.Errorf("%s:%d: duplicate contract for %s", c.File, c.Line, key)
			}
			w.contracts[key] = c
		}
		for _, m := range sf.Macros {
			w.macros[m.Name] = append(w.macros[m.Name], m)
		}
		w.axioms = append(w.axioms, sf.Axioms...)
		for _, g := range sf.Guards {
			if g.Mutex == "" {
				w.ownership[g.Pkg+"."+g.Type+"."+g.Field] = true
				continue
			}
			w.guards[g.Pkg+"."+g.Type+"."+g.Field] = g
		}
	}
	// trusted pure list
	if b, err := os.ReadFile(filepath.Join(speclib, "trusted_pure.txt")); err == nil {
		for _, l := range strings.Split(string(b), "\n") {
			l = strings.TrimSpace(l)
			if l != "" && !strings.HasPrefix(l, "#") {
				w.trustedPure = append(w.trustedPure, strings.Fields(l)[0])
			}
		}
	}
	return nil
}

// ---------- verification of one function ----------

type FuncResult struct {
	Name     string
	Key      string
	Contract *Contract
	Obls     []*Obl
	Notes    []string
	Assumed  []string
	OutOfSubset string // non-empty: reason
	Sess     *Sess
	Trusted  bool
}

func (w *World) newFV(c *Contract, pkg *packages.Package) *FV {
	return &FV{w: w, sess: newSess(), pkg: pkg, contract: c, cnt: map[string]int{}, assumed: map[string]bool{},
		tsub: map[string]types.Type{}, specNames: map[string]Val{}, writtenHeap: map[string]bool{}}
}

func (w *World) verifyContract(c *Contract) (res *FuncResult) {
	res = &FuncResult{Key: c.Key(), Contract: c}
	pkg := w.pkgOf(c.Pkg)
	res.Name = shortName(c.Key())
	if c.IsLemma {
		res.Name = "lemma." + c.Name
		res.Key = "lemma:" + c.Pkg + "." + c.Name
	}
	if pkg == nil {
		res.OutOfSubset = "package not loaded: " + c.Pkg
		return
	}
	fv := w.newFV(c, pkg)
	fv.fname = res.Name
	res.Sess = fv.sess
	defer func() {
		res.Obls = fv.obls
		res.Notes = fv.notes
		for a := range fv.assumed {
			res.Assumed = append(res.Assumed, a)
		}
		sort.Strings(res.Assumed)
		if r := recover(); r != nil {
			if u, ok := r.(unsupported); ok {
				res.OutOfSubset = u.msg
				return
			}
			panic(r)
		}
	}()
	if c.IsLemma {
		fv.verifyLemma(c, pkg)
		return
	}
	if c.Trusted {
		res.Trusted = true
		return
	}
	d := w.declsByName[c.Key()]
	if d == nil {
		res.OutOfSubset = "contract target not found: " + c.Key()
		return
	}
	fv.verifyFunc(c, d)
	return
}

func (fv *FV) verifyFunc(c *Contract, d *declInfo) {
	w := fv.w
	info := d.pkg.TypesInfo
	fn := info.Defs[d.decl.Name].(*types.Func)
	sig := fn.Type().(*types.Signature)
	if d.decl.Body == nil {
		fv.unsupported("no body")
	}
	fv.loopIndex = map[ast.Stmt]int{}
	nloops := 0
	ast.Inspect(d.decl.Body, func(n ast.Node) bool {
		switch l := n.(type) {
		case *ast.ForStmt:
			nloops++
			fv.loopIndex[l] = nloops
		case *ast.RangeStmt:
			nloops++
			fv.loopIndex[l] = nloops
		}
		return true
	})
	for _, lc := range c.Loops {
		if lc.Loop > nloops {
			fv.unsupported("contract refers to loop %d but the function has %d loops", lc.Loop, nloops)
		}
	}
	st := &State{pc: "true", vars: map[types.Object]Val{}, heap: map[string]Val{}}
	ctx := &fnCtx{decl: d.decl, sig: sig, pkg: d.pkg, contract: c, top: true}
	fv.fn = ctx
	// bind params
	var objs []types.Object
	if d.decl.Recv != nil {
		if len(d.decl.Recv.List[0].Names) > 0 {
			objs = append(objs, info.Defs[d.decl.Recv.List[0].Names[0]])
		} else {
			objs = append(objs, nil)
		}
	}
	for _, f := range d.decl.Type.Params.List {
		if len(f.Names) == 0 {
			objs = append(objs, nil)
		}
		for _, n := range f.Names {
			objs = append(objs, info.Defs[n])
		}
	}
	if len(c.Params) != len(objs) {
		fv.unsupported("contract header has %d parameters (incl. receiver), function has %d", len(c.Params), len(objs))
	}
	if tps := sig.TypeParams(); tps != nil {
		for i := 0; i < tps.Len(); i++ {
			fv.tsub[tps.At(i).Obj().Name()] = tps.At(i)
		}
	}
	if tps := sig.RecvTypeParams(); tps != nil {
		for i := 0; i < tps.Len(); i++ {
			fv.tsub[tps.At(i).Obj().Name()] = tps.At(i)
		}
	}
	// signature check: types as written must match
	fv.checkHeaderTypes(c, sig, d)
	for i, o := range objs {
		var t types.Type
		if o != nil {
			t = o.Type()
		} else if d.decl.Recv != nil && i == 0 {
			t = sig.Recv().Type()
		} else {
			k := i
			if d.decl.Recv != nil {
				k--
			}
			t = sig.Params().At(k).Type()
		}
		name := c.Params[i]
		v := fv.freshVal("p_"+name, t)
		// entry references are pre-existing
		fv.entryOld(v)
		if o != nil {
			st.vars[o] = v
		}
		fv.specNames[name] = v
		// receivers are non-nil (calling a method on a nil receiver is the caller's error)
		if i == 0 && d.decl.Recv != nil && isPointer(t) {
			fv.sess.fact(fmt.Sprintf("(> %s 0)", v.T))
		}
	}
	if d.decl.Type.Results != nil {
		for _, f := range d.decl.Type.Results.List {
			for _, n := range f.Names {
				if obj := info.Defs[n]; obj != nil {
					st.vars[obj] = fv.zero(obj.Type())
					ctx.results = append(ctx.results, obj)
				}
			}
		}
	}
	fv.oldState = st.clone()
	ctx.entry = fv.oldState
	// axioms available to this function
	fv.loadUses(c, st)
	// requires
	env := &SpecEnv{fv: fv, names: fv.specNames, cur: st, old: fv.oldState, pkg: d.pkg, tsub: fv.tsub}
	for _, r := range c.Requires {
		fv.sess.fact(fv.evalSpecBool(env, r.Expr))
	}
	fv.oldState = st.clone()
	ctx.entry = fv.oldState
	// vacuity canary: requires ∧ type invariants must be satisfiable
	fv.obls = append(fv.obls, &Obl{Name: fv.fname + "#vacuity.requires", Func: fv.fname, Kind: "vacuity", Goal: "false",
		NDecls: len(fv.sess.decls), NFacts: len(fv.sess.facts), Props: c.Props, Text: "preconditions are satisfiable (this query must be refuted)"})
	end := fv.execBlock(st, d.decl.Body.List)
	if end != nil {
		fv.execReturn(end, &ast.ReturnStmt{})
	}
	// exits: check postconditions on the merged exit state
	var live []*State
	for _, r := range ctx.returns {
		if r.pc != "false" {
			live = append(live, r)
		}
	}
	if len(live) == 0 {
		fv.note("function has no normal exit")
		return
	}
	exit := fv.merge(ctx.returns)
	// result values
	for i := 0; i < sig.Results().Len(); i++ {
		t := live[len(live)-1].result[i].T
		for j := len(live) - 2; j >= 0; j-- {
			t = ite(live[j].pc, live[j].result[i].T, t)
		}
		v := live[0].result[i]
		v.T = t
		v = fv.name("result", v)
		if i < len(c.Results) {
			fv.specNames[c.Results[i]] = v
		}
	}
	for _, mp := range c.Mutates {
		for i, pn := range c.Params {
			if pn == mp && i < len(objs) && objs[i] != nil {
				if v, ok := exit.vars[objs[i]]; ok {
					fv.specNames["post:"+mp] = v
				}
			}
		}
	}
	for _, gs := range c.GhostSets {
		genv := &SpecEnv{fv: fv, names: fv.specNames, cur: exit, old: fv.oldState, pkg: d.pkg, tsub: fv.tsub}
		nv := fv.evalSpec(genv, gs.Expr)
		fv.heapGet(exit, ghostKey(gs.Name), "Int", types.Typ[types.Int])
		exit.heap[ghostKey(gs.Name)] = Val{T: nv.T, S: "Int", Go: types.Typ[types.Int]}
	}
	penv := &SpecEnv{fv: fv, names: fv.specNames, cur: exit, old: fv.oldState, pkg: d.pkg, tsub: fv.tsub}
	for _, e := range c.Ensures {
		g := fv.evalSpecBool(penv, e.Expr)
		fv.oblige(exit, "ensures", e.Label, g, e.Text, d.decl.Pos())
	}
	fv.checkFrame(exit, c, penv, d)
	// vacuity canary at the exit: everything assumed along the way (callee
	// postconditions, invariants, modelled library axioms) together with the
	// exit path condition must be satisfiable
	fv.obls = append(fv.obls, &Obl{Name: fv.fname + "#vacuity.exit", Func: fv.fname, Kind: "vacuity", Goal: not(exit.pc),
		NDecls: len(fv.sess.decls), NFacts: len(fv.sess.facts), Props: c.Props, Text: "the function's exit is reachable under everything assumed (this query must not be unsat)"})
	_ = w
}

// entryOld asserts that references reachable directly from a parameter value
// existed at entry (<= alloc0).
func (fv *FV) entryOld(v Val) {
	switch {
	case v.S == "Int" && v.Go != nil && isPointer(v.Go):
		fv.sess.fact(fmt.Sprintf("(<= %s alloc0)", v.T))
	case strings.HasPrefix(v.S, "(GSeq "):
		fv.sess.fact(fmt.Sprintf("(<= (sq.ref %s) alloc0)", v.T))
	case strings.HasPrefix(v.S, "(GMap "):
		fv.sess.fact(fmt.Sprintf("(<= (mp.ref %s) alloc0)", v.T))
	}
}

func (fv *FV) checkHeaderTypes(c *Contract, sig *types.Signature, d *declInfo) {
	// compare printed types of the Go signature with the contract header
	norm := func(s string) string {
		s = strings.ReplaceAll(s, " ", "")
		s = strings.ReplaceAll(s, "interface{}", "any")
		return s
	}
	q := func(p *types.Package) string {
		if p == d.pkg.Types {
			return ""
		}
		if a := fv.w.importAlias(d.pkg, p.Path()); a != "" {
			return a
		}
		return p.Name()
	}
	k := 0
	if sig.Recv() != nil {
		k = 1
	}
	for i := 0; i < sig.Params().Len(); i++ {
		want := types.TypeString(sig.Params().At(i).Type(), q)
		if sig.Variadic() && i == sig.Params().Len()-1 {
			want = "..." + strings.TrimPrefix(want, "[]")
		}
		got := c.PTypes[k+i]
		if norm(want) != norm(got) {
			fv.unsupported("contract header type mismatch for parameter %s: contract says %s, code says %s", c.Params[k+i], got, want)
		}
	}
	if len(c.RTypes) != sig.Results().Len() {
		fv.unsupported("contract header has %d results, function has %d", len(c.RTypes), sig.Results().Len())
	}
	for i := 0; i < sig.Results().Len(); i++ {
		want := types.TypeString(sig.Results().At(i).Type(), q)
		if norm(want) != norm(c.RTypes[i]) {
			fv.unsupported("contract header type mismatch for result %d: contract says %s, code says %s", i, c.RTypes[i], want)
		}
	}
}

// loadUses makes the named lemmas' statements and axioms available as facts.
func (fv *FV) loadUses(c *Contract, st *State) {
	for _, u := range c.Uses {
		found := false
		for _, a := range fv.w.axioms {
			if a.Name == u {
				env := &SpecEnv{fv: fv, names: map[string]Val{}, cur: st, old: st, pkg: fv.w.pkgOf(a.Pkg), tsub: fv.tsub}
				if env.pkg == nil {
					env.pkg = fv.pkg
				}
				fv.sess.fact(fv.evalSpecBool(env, a.Expr))
				fv.assumed["axiom "+u+": "+a.Text] = true
				found = true
			}
		}
		for _, lc := range fv.w.contracts {
			if lc.IsLemma && lc.Name == u {
				fv.sess.fact(fv.lemmaStatement(lc, st))
				fv.assumed["lemma "+u+" (proved separately as lemma."+u+")"] = true
				found = true
			}
		}
		if !found {
			fv.unsupported("uses: unknown lemma or axiom %q", u)
		}
	}
}

// lemmaStatement: forall params. requires ==> ensures  (only for lemmas
// without call steps, i.e. pure mathematical statements)
func (fv *FV) lemmaStatement(lc *Contract, st *State) string {
	if len(lc.Steps) > 0 {
		fv.unsupported("lemma %s has call steps and cannot be used as an axiom", lc.Name)
	}
	pkg := fv.w.pkgOf(lc.Pkg)
	if pkg == nil {
		pkg = fv.pkg
	}
	env := &SpecEnv{fv: fv, names: map[string]Val{}, cur: st, old: st, pkg: pkg, tsub: fv.tsub, bound: 1}
	var bs, guards []string
	for i, p := range lc.Params {
		t := env.resolveType(lc.PTypes[i])
		s := fv.sess.sortOf(t)
		bn := p + "!l"
		env.names[p] = Val{T: bn, S: s, Go: t}
		bs = append(bs, fmt.Sprintf("(%s %s)", bn, s))
		if g := fv.lemmaInv(bn, t); g != "true" {
			guards = append(guards, g)
		}
	}
	fv.pure++
	defer func() { fv.pure-- }()
	var pre, post []string
	for _, r := range lc.Requires {
		pre = append(pre, fv.evalSpecBool(env, r.Expr))
	}
	for _, e := range lc.Ensures {
		post = append(post, fv.evalSpecBool(env, e.Expr))
	}
	if len(bs) == 0 {
		return implies(and(pre...), and(post...))
	}
	body := implies(and(append(guards, pre...)...), and(post...))
	if len(lc.Patterns) > 0 {
		var pats []string
		for _, pat := range lc.Patterns {
			var ts []string
			for _, e := range pat {
				ts = append(ts, fv.evalSpec(env, e).T)
			}
			pats = append(pats, ":pattern ("+strings.Join(ts, " ")+")")
		}
		body = fmt.Sprintf("(! %s %s)", body, strings.Join(pats, " "))
	}
	return fmt.Sprintf("(forall (%s) %s)", strings.Join(bs, " "), body)
}

// checkFrame: every heap key written during execution must be covered by the
// assigns clause, semantically: outside the declared locations the exit heap
// equals the entry heap (on pre-existing objects).
func (fv *FV) checkFrame(exit *State, c *Contract, env *SpecEnv, d *declInfo) {
	if c.AssignsAll {
		return
	}
	if c.AllUnless != nil {
		// the frame is only promised when the condition held on entry
		oenv := *env
		oenv.cur = env.old
		cond := fv.evalSpecBool(&oenv, c.AllUnless)
		exit = exit.clone()
		exit.pc = fv.namePC(and(exit.pc, cond))
	}
	// declared: key -> list of refs ("" = all refs)
	declared := map[string][]string{}
	for _, a := range c.Assigns {
		sel, ok := a.(SSel)
		if !ok {
			continue
		}
		if id, ok := sel.X.(SIdent); ok && id.Name == "ghost" {
			continue
		}
		if id, ok := sel.X.(SIdent); ok && id.Name == "chans" && sel.Sel == "closed" {
			continue
		}
		if id, ok := sel.X.(SIdent); ok {
			if _, bound := env.names[id.Name]; !bound {
				if tn := env.lookupType(id.Name); tn != nil {
					if n := namedOf(tn); n != nil {
						if stt, ok := n.Underlying().(*types.Struct); ok {
							for i := 0; i < stt.NumFields(); i++ {
								if stt.Field(i).Name() == sel.Sel {
									declared[fieldKey(n, stt.Field(i))] = append(declared[fieldKey(n, stt.Field(i))], "")
								}
							}
						}
						continue
					}
				}
			}
		}
		oenv := *env
		oenv.cur = env.old
		base := fv.evalSpec(&oenv, sel.X)
		n := namedOf(base.Go)
		stt := structOf(base.Go)
		if n == nil || stt == nil {
			continue
		}
		for i := 0; i < stt.NumFields(); i++ {
			if stt.Field(i).Name() == sel.Sel || sel.Sel == "_all" {
				k := fieldKey(n, stt.Field(i))
				declared[k] = append(declared[k], base.T)
			}
		}
	}
	for _, k := range sortedKeys(fv.writtenHeap) {
		if strings.HasPrefix(k, "P:") {
			continue // anonymous pointer cells / library objects: not framed
		}
		cur, ok := exit.heap[k]
		if !ok {
			continue
		}
		old, ok := fv.oldState.heap[k]
		if !ok {
			old = fv.heapInit(k, Val{})
		}
		if cur.T == old.T {
			continue
		}
		refs := declared[k]
		all := false
		for _, r := range refs {
			if r == "" {
				all = true
			}
		}
		if all {
			continue
		}
		label := shortName(k)
		if strings.HasPrefix(k, "G:ghost.") {
			declaredGhost := false
			for _, gs := range c.GhostSets {
				if ghostKey(gs.Name) == k {
					declaredGhost = true
				}
			}
			for _, a := range c.Assigns {
				if sel, ok := a.(SSel); ok {
					if id, ok := sel.X.(SIdent); ok && id.Name == "ghost" && ghostKey(sel.Sel) == k {
						declaredGhost = true
					}
				}
			}
			if declaredGhost {
				continue
			}
		}
		if k == "chan.closed" && assignsChanClosed(c) {
			// declared `assigns chan.closed`: channels may be closed, never re-opened
			fv.oblige(exit, "assigns", label, fmt.Sprintf("(forall ((r!f Int)) (=> (and (<= r!f alloc0) (select %s r!f)) (select %s r!f)))", old.T, cur.T), "channels are only ever closed", d.decl.Pos())
			continue
		}
		if strings.HasPrefix(k, "G:") || k == "chan.closed" && false {
			fv.oblige(exit, "assigns", label, fmt.Sprintf("(= %s %s)", cur.T, old.T), "global "+k+" not in assigns", d.decl.Pos())
			continue
		}
		var ex []string
		for _, r := range refs {
			ex = append(ex, fmt.Sprintf("(= r!f %s)", r))
		}
		goal := fmt.Sprintf("(forall ((r!f Int)) (=> (and (<= r!f alloc0) (not %s)) (= (select %s r!f) (select %s r!f))))", or(ex...), cur.T, old.T)
		fv.oblige(exit, "assigns", label, goal, "field "+k+" changed only at the declared locations", d.decl.Pos())
	}
}

// ---------- lemmas ----------

func (fv *FV) verifyLemma(c *Contract, pkg *packages.Package) {
	st := &State{pc: "true", vars: map[types.Object]Val{}, heap: map[string]Val{}}
	fv.fn = &fnCtx{pkg: pkg, top: true, sig: types.NewSignatureType(nil, nil, nil, nil, nil, false)}
	env := &SpecEnv{fv: fv, names: fv.specNames, cur: st, old: st, pkg: pkg, tsub: fv.tsub}
	for i, p := range c.Params {
		t := env.resolveType(c.PTypes[i])
		sort := fv.sess.sortOf(t)
		v := Val{T: fv.sess.fresh("p_"+p, sort), S: sort, Go: t}
		inv := fv.lemmaInv(v.T, t)
		if len(c.Steps) > 0 {
			// lemmas about real calls quantify over real values
			inv = fv.typeInv(v.T, t, 0)
		}
		if inv != "true" {
			fv.sess.fact(inv)
		}
		fv.entryOld(v)
		fv.specNames[p] = v
	}
	for _, g := range c.Ghost {
		t := env.resolveType(g.Type)
		fv.specNames[g.Name] = fv.freshVal("g_"+g.Name, t)
	}
	fv.oldState = st.clone()
	env.old = fv.oldState
	fv.loadUses(c, st)
	for _, r := range c.Requires {
		fv.sess.fact(fv.evalSpecBool(env, r.Expr))
	}
	// induction hypothesis: the lemma's own statement for smaller values of the
	// induction variable
	if c.Induct != "" {
		iv, ok := fv.specNames[c.Induct]
		if !ok || iv.S != "Int" {
			fv.unsupported("induct: %s is not an integer parameter", c.Induct)
		}
		ienv := &SpecEnv{fv: fv, names: map[string]Val{}, cur: st, old: st, pkg: pkg, tsub: fv.tsub, bound: 1}
		var bs, guards []string
		for i, p := range c.Params {
			t := env.resolveType(c.PTypes[i])
			s := fv.sess.sortOf(t)
			bn := p + "!ih"
			ienv.names[p] = Val{T: bn, S: s, Go: t}
			bs = append(bs, fmt.Sprintf("(%s %s)", bn, s))
			if g := fv.lemmaInv(bn, t); g != "true" {
				guards = append(guards, g)
			}
		}
		fv.pure++
		var pre, post []string
		for _, r := range c.Requires {
			pre = append(pre, fv.evalSpecBool(ienv, r.Expr))
		}
		for _, e := range c.Ensures {
			post = append(post, fv.evalSpecBool(ienv, e.Expr))
		}
		fv.pure--
		ih := c.Induct + "!ih"
		fv.sess.fact(fmt.Sprintf("(forall (%s) (=> (and (<= 0 %s) (< %s %s) %s) %s))", strings.Join(bs, " "), ih, ih, iv.T, and(append(guards, pre...)...), and(post...)))
	}
	fv.obls = append(fv.obls, &Obl{Name: fv.fname + "#vacuity.requires", Func: fv.fname, Kind: "vacuity", Goal: "false",
		NDecls: len(fv.sess.decls), NFacts: len(fv.sess.facts), Props: c.Props, Text: "lemma hypotheses are satisfiable (this query must be refuted)"})
	for _, s := range c.Steps {
		switch s.Kind {
		case "assert":
			g := fv.evalSpecBool(env, s.Expr)
			fv.oblige(st, "assert", s.Label, g, "", token.NoPos)
		case "call":
			fv.lemmaCall(st, env, s, pkg)
		}
	}
	for _, e := range c.Ensures {
		g := fv.evalSpecBool(env, e.Expr)
		fv.oblige(st, "ensures", e.Label, g, e.Text, token.NoPos)
	}
}

// lemmaCall: a call step `call r := f(args)` or `call r := recv.M(args)` in a
// lemma uses the *contract* of the real function.
func (fv *FV) lemmaCall(st *State, env *SpecEnv, s LemmaStep, pkg *packages.Package) {
	var c *Contract
	var all []Val
	switch f := s.Call.Fun.(type) {
	case SIdent:
		c = fv.w.contractFor(pkg.PkgPath + "." + f.Name)
		if c == nil {
			fv.unsupported("lemma call: no contract for %s", f.Name)
		}
	case SSel:
		recv := fv.evalSpec(env, f.X)
		if recv.Go != nil {
			if n := namedOf(recv.Go); n != nil && n.Obj().Pkg() != nil {
				c = fv.w.contractFor(n.Obj().Pkg().Path() + "." + n.Obj().Name() + "." + f.Sel)
			}
		}
		if c == nil {
			// qualified function pkg.F
			if id, ok := f.X.(SIdent); ok {
				for _, imp := range pkg.Imports {
					if imp.Name == id.Name || fv.w.importAlias(pkg, imp.PkgPath) == id.Name {
						c = fv.w.contractFor(imp.PkgPath + "." + f.Sel)
					}
				}
			}
			if c == nil {
				fv.unsupported("lemma call: no contract for method %s", f.Sel)
			}
		} else {
			all = append(all, recv)
		}
	}
	for _, a := range s.Call.Args {
		all = append(all, fv.evalSpec(env, a))
	}
	d := fv.w.declsByName[c.Key()]
	if d == nil {
		fv.unsupported("lemma call: target %s not found", c.Key())
	}
	fn := d.pkg.TypesInfo.Defs[d.decl.Name].(*types.Func)
	sig := fn.Type().(*types.Signature)
	// convert args to parameter types
	off := 0
	if sig.Recv() != nil {
		off = 1
	}
	for i := off; i < len(all) && i-off < sig.Params().Len(); i++ {
		all[i] = fv.convertTo(st, all[i], sig.Params().At(i-off).Type())
	}
	out := fv.callByContract(st, c, fn, sig, all, nil)
	for i, r := range s.Results {
		if i < len(out) && r != "_" {
			fv.specNames[r] = out[i]
		}
	}
}

// assignsChanClosed: the contract declares `assigns chan.closed` (the function
// may close channels it does not name; the frame is then monotonicity).
func assignsChanClosed(c *Contract) bool {
	for _, a := range c.Assigns {
		if sel, ok := a.(SSel); ok {
			if id, ok := sel.X.(SIdent); ok && id.Name == "chans" && sel.Sel == "closed" {
				return true
			}
		}
	}
	return false
}
