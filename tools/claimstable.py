#!/usr/bin/env python3
"""Regenerates section 9.5 of DESIGN.md (claims as built) from MANIFEST.json, props/, evidence/ and known_findings.json."""
import json, os
V = os.path.dirname(os.path.dirname(os.path.abspath(__file__)))
m = json.load(open(V + '/MANIFEST.json'))
kf = json.load(open(V + '/known_findings.json'))
rows = []
for c in m['checks']:
    p = c['property_id']
    ev = json.load(open(f'{V}/evidence/{p}.json'))
    cov = ev['coverage']
    fixed = sorted(set(e['commit'] for e in kf if e['status'] == 'fixed' and e['property'] == p))
    known = [e['obligation'] for e in kf if e['status'] == 'known' and e['property'] == p]
    names = {'bounded_relations_standin': 'relations', 'bounded_order_standin': 'target order', 'bounded_negotiation_standin': 'negotiation',
             'bounded_queue_standin': 'queue', 'bounded_dispose_standin': 'dispose', 'bounded_fault_standin': 'faults', 'bounded_waiting_standin': 'waiting',
             'bounded_obligations': 'exclusive groups / determinism', 'schema_constants_unchanged_by_use': 'constants unchanged by use',
             'bounded_clock_standin': 'clock views', 'bounded_handler_sequence_standin': 'handler sequence', 'bounded_helpers_standin': 'helpers',
             'bounded_history_standin': 'history log', 'bounded_netmach_race_standin': 'network-machine race family', 'bounded_tracer_standin': 'tracer stream'}
    bounded = [names[k] for k in cov if k in names and cov[k]]
    rows.append(f"| {p} | {c['level_claimed']['category']} | {len(cov.get('functions_under_contract', []))} | {cov.get('discharged')} | {', '.join(bounded) or '-'} | {', '.join(fixed) or '-'} | {len(known) or '-'} |")
txt = ("### 9.5 Claims as built (numbers from the committed quick-tier evidence)\n\n"
       "| property | level | functions under contract | obligations discharged | bounded stand-ins (never counted) | fix commits found under it | known-finding obligations |\n|---|---|---|---|---|---|---|\n"
       + "\n".join(rows) +
       "\n\nC09 and C18 are not applicable (section 4). What each claim covers, and what it leaves unverified, is spelled out in `props/<id>.json`, "
       "which is the single source of the `level_claimed.text` of MANIFEST.json and of the `explanation` / `unverified_remainder` of every evidence file.\n")
s = open(V + '/DESIGN.md').read()
a = '### 9.5 Claims as built'
end = '<!-- seedtable:begin -->'
if a in s:
    i = s.index(a)
    j = s.index(end) if end in s else len(s)
    s = s[:i] + txt + '\n' + s[j:]
elif end in s:
    j = s.index(end)
    s = s[:j] + txt + '\n' + s[j:]
else:
    s = s.rstrip('\n') + '\n\n' + txt
open(V + '/DESIGN.md', 'w').write(s)
print("claims table written")
