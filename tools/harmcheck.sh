#!/bin/bash
# usage: harmcheck.sh [name ...] : applies each behaviour-preserving patch of /verif/harmless to /repo,
# runs the quick checks listed for it, and undoes it. A VIOLATION line is a FALSE ALARM of the machinery.
cd /verif
declare -A PROPS=( [H1_checksum]="C10" [H2_without]="C19 C20 C11 C02" [H3_poolready]="C15" [H4_parseadd]="C02 C11 C05"
 [H5_setactive]="C01 C03 C12 C14" [H6_whenqueue]="C04 C06 C12" [H7_tick]="C01 C12" [H8_timesum]="C17 C20 C10"
 [H9_statesdiff]="C02 C20 C01" [H10_findlatest]="C17" [H11_queuemut]="C04 C03" [H12_enter]="C03 C05 C07"
 [H13_deep]="C10" [H14_txat]="C16" [H15_recover]="C08 C01" [H16_target]="C02 C11 C05" [H17_auto]="C07 C11" [H18_import]="C17 C20 C12 C01" [H19_setpool]="C15" [H20_parsestates]="C20 C11" [H21_switch]="C01 C20" [H22_parsemsg]="C16" [H23_evremove]="C04 C03" )
names="$*"; [ -z "$names" ] && names=$(ls harmless | sed 's/.diff$//')
rc=0
for n in $names; do
  [ -z "$(git -C /repo status --porcelain)" ] || { echo "REFUSING: /repo has uncommitted changes"; exit 2; }
  git -C /repo apply /verif/harmless/$n.diff || { echo "$n APPLY FAILED"; continue; }
  for p in ${PROPS[$n]}; do
    out=$(GOCV_OUT=/tmp/w/harmcheck-out ./check $p quick 2>&1 | grep -E "^(VIOLATION|UNDECIDED)" | cut -c1-200)
    if echo "$out" | grep -q "^VIOLATION"; then echo "$n $p FALSE ALARM: $out"; rc=1; else echo "$n $p quiet $(echo "$out" | grep -c UNDECIDED) undecided"; fi
  done
  git -C /repo checkout -- .
done
exit $rc
