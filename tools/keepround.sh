#!/bin/bash
# usage: keepround.sh <prop> <round>  : keeps /tmp/seed/<prop>/out/{change,demo,meta}{1,2} as the next /verif/seeded/<prop>-N
set -e
P=$1; R=$2; SRC=/tmp/seed/$P/out
n=$(ls -d /verif/seeded/$P-* 2>/dev/null | sed "s/.*$P-//" | sort -n | tail -1); n=${n:-0}
for i in 1 2; do
  [ -f $SRC/change$i.diff ] || continue
  n=$((n+1)); id=$P-$n
  pkg=$(head -1 $SRC/demo${i}_test.go | sed -n 's|^// package directory: *||p' | tr -d ' \r')
  pkg=${pkg%/}; pkg=${pkg#./}
  /verif/tools/keepseed.sh $id $SRC $i "$pkg" >/dev/null
  python3 - $id $R <<'PY'
import json,sys
p='/verif/seeded/%s/meta.json'%sys.argv[1]; m=json.load(open(p)); m['round']=int(sys.argv[2]); json.dump(m,open(p,'w'),indent=1)
PY
  echo "$id $pkg"
done
