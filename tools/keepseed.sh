#!/bin/bash
# usage: keepseed.sh <id> <srcdir> <i> <pkgdir>   -> /verif/seeded/<id>/
set -e
ID=$1; SRC=$2; I=$3; PKG=$4
D=/verif/seeded/$ID; mkdir -p $D
cp $SRC/change$I.diff $D/patch.diff
cp $SRC/demo${I}_test.go $D/demo_test.go
python3 - "$SRC/meta$I.json" "$D/meta.json" "$PKG" <<'PY'
import json,sys
m=json.load(open(sys.argv[1]))
m["demo_pkg_dir"]=sys.argv[3]
m["confirmed_by"]="tools/seedtest.sh: demo passes without the patch; with the patch: go build ./pkg/... ok, existing tests of the package pass, demo fails"
json.dump(m,open(sys.argv[2],"w"),indent=1)
PY
echo kept $D
