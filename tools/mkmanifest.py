#!/usr/bin/env python3
"""Regenerates /verif/MANIFEST.json from the table below (kept in one place so
that claims, N/A reasons and hook commits stay consistent)."""
import json, subprocess, os
V = os.path.dirname(os.path.dirname(os.path.abspath(__file__)))

TECH = "contract-based deductive verification (WP/symbolic-execution VCs over go/ast+go/types, SMT: z3 5.1/4.8, cvc5)"
CLAIMS = {
 "C01": dict(
  category="other",
  text="Deductive: Machine.setActiveStates is proved (for all schemas, active sets, targets, called sets) to preserve the clock invariant (tick parity = activity) and to move each tick by exactly the documented step, with a frame condition; every reader method is proved to return its documented function of (activeStates, clock); tick helpers are proved against parity specs. Level 'other' because the no-half-applied-view clause rests on lock-discipline obligations plus Go mutex semantics, not on interleavings.",
  design_ref="DESIGN.md 3 (C01)",
  note="Trusted: gocv, go/types, SMT solvers; logging helpers have trusted frame contracts; tick overflow excluded by precondition; handler-fault paths exempt per the statement.",
  technique=TECH),
 "C02": dict(
  category="other",
  text="Deductive, for all schemas / active sets / called sets: the real resolver DefaultRelationsResolver.TargetStates is proved to return a duplicate-free, defined, Require-closed target in which followed Add relations are honoured unless Remove-excluded or a Require is missing, every member is justified (called or an Add target), and no member is Removed by a member that survived the block scan; parseRequire, parseAdd, stateBlockedBy, getMissingRequires and the slice helpers carry the contracts this rests on. The unconditional Remove-consistency clause is a known finding with a replayable witness. 'other' because the block-scan closure is abstracted and the 'justified out' clause is not under contract.",
  design_ref="DESIGN.md 3 (C02)",
  note="Trusted: gocv, go/types, SMT solvers; step-recording/logging helpers and Transition.StatesBefore have trusted frame contracts; sort.SliceStable is modelled as an arbitrary permutation; SchemaRefs (relations mention defined states only) is a precondition established by Schema.Parse/verifyStates, not proved here.",
  technique=TECH),
 "C15": dict(
  category="other",
  text="Deductive for the handler-local gates (min = min(Min,Max); PoolReadyEnter/Exit true exactly when ready workers >= / < min(); ForkWorkerEnter true exactly below Max) and, via the generally proved lemma group_exclusive instantiated on the extracted node schemas, for the pool-normalisation and work-status groups; the pool-status group gets a bounded reachability stand-in. Event orders and pool bounds over histories are outside contracts, hence 'other'.",
  design_ref="DESIGN.md 3 (C15)",
  note="Trusted: gocv, go/types, SMT solvers; readyWorkers() through a trusted pure contract; schema extraction program; bounded part labelled bounded.",
  technique=TECH),
 "C16": dict(
  category="other",
  text="Deductive for the lookup functions of the debugger's client store (TxAtQueueTick, TxAtMachTime, HadErrSinceTx, TxIndex with cache coherence, Tx, TxParsed, FilterIndexByCursor1): each is proved to return what a linear scan would, for all record lists satisfying the stated monotonicity preconditions; sort.Search / slices.BinarySearchFunc are used via assumed contracts whose preconditions are discharged at the call sites. Record derivation, navigation, filters and export/import are not covered, hence 'other'.",
  design_ref="DESIGN.md 3 (C16)",
  note="Trusted: gocv, go/types, SMT solvers, assumed contracts of sort.Search and slices.BinarySearchFunc; monotone QueueTick/TimeSum streams are preconditions (supplied by C01/C04).",
  technique=TECH),
 "C19": dict(
  category="other",
  text="Contracts proved for all schemas (Require closure of every resolver target; lemma group_exclusive) instantiated on the schema constants extracted from the working tree on every run; well-formedness predicates and lemma hypotheses decided exactly on the constants; groups outside the lemma get a bounded exhaustive reachability stand-in on the real resolver (labelled bounded).",
  design_ref="DESIGN.md 3 (C19)",
  note="Trusted: gocv, go/types, SMT solvers, the extraction program (generated, runs the real initialisers), the concrete evaluator for ground instances; mixin schemas referencing Start are recorded known findings.",
  technique=TECH),
 "C20": dict(
  category="other",
  text="Deductive for the functions listed in the evidence: set/sequence algebra of the state-list helpers (S.Add1/Delete/Delete1/Sub/Shared/Equal/EqualOrder/Has/Unique, SRem, StatesDiff/Shared/Equal, slices helpers, ParseStates/mustParseStates, Machine readers) proved against mathematical specs for all inputs, plus a zero-annotation no-panic sweep (index/slice bounds, nil deref, nil-map write, division, explicit panic) inside every function under contract and copy/freshness postconditions of getters. Level 'other' because totality is claimed only for the swept functions and blocking is outside the verifier.",
  design_ref="DESIGN.md 3 (C20)",
  note="Trusted: gocv, go/types, SMT solvers, modelled stdlib (slices/maps); exported functions not under contract are listed as unverified in the evidence, never counted.",
  technique=TECH),
 "C04": dict(
  category="other",
  text=json.load(open(V+"/props/C04.json"))["explanation"],
  design_ref="DESIGN.md 3 (C04)",
  note="Trusted: gocv, go/types, SMT solvers; processQueue, tracer callbacks (MutationQueued) and logging are trusted frame contracts; unverified remainder listed in the evidence.",
  technique=TECH),
 "C06": dict(
  category="other",
  text=json.load(open(V+"/props/C06.json"))["explanation"],
  design_ref="DESIGN.md 3 (C06)",
  note="Trusted: gocv, go/types, SMT solvers; closeSafe modelled by the closed-channel ghost state; ctx.Err() opaque; maps.Equal modelled as domain-wise equality; precondition: the subscribed state list is duplicate-free.",
  technique=TECH),
 "C13": dict(
  category="other",
  text=json.load(open(V+"/props/C13.json"))["explanation"],
  design_ref="DESIGN.md 3 (C13)",
  note="Trusted: gocv, go/types, SMT solvers; closeSafe modelled by the closed-channel ghost state; Backoff() sampled once.",
  technique=TECH),
 "C08": dict(
  category="other",
  text=json.load(open(V+"/props/C08.json"))["explanation"],
  design_ref="DESIGN.md 3 (C08)",
  note="Trusted: gocv, go/types, SMT solvers; Machine.handle (handler dispatch) with ghost counters faults/vetoes/finalsDone; Pass(), handlerLoop spawn, logging are trusted frame contracts.",
  technique=TECH),
 "C12": dict(
  category="other",
  text=json.load(open(V+"/props/C12.json"))["explanation"],
  design_ref="DESIGN.md 3 (C12)",
  note="Trusted: gocv, go/types, SMT solvers, Go mutex semantics (a held write lock excludes all other holders); sync/atomic fields are race-free by construction; known findings carry race-detector witnesses (go test -race).",
  technique=TECH),
 "C11": dict(
  category="other",
  text=json.load(open(V+"/props/C11.json"))["explanation"],
  design_ref="DESIGN.md 3 (C11)",
  note="Trusted: gocv, go/types, SMT solvers; the bounded part is an exhaustive enumeration of a stated finite family on the real code, labelled bounded and never counted in discharged.",
  technique=TECH),
 "C17": dict(
  category="other",
  text=json.load(open(V+"/props/C17.json"))["explanation"],
  design_ref="DESIGN.md 3 (C17)",
  note="Trusted: gocv, go/types, SMT solvers; am.Api calls (Time, StateNames, MachineTick) and the wall clock are opaque; Transition getters through their trusted contracts.",
  technique=TECH),
 "C03": dict(
  category="other",
  text="Contracts on the real transition executor and entry points. Transition.emitEvents is verified (every path, handlers and tracers abstracted by frame contracts) against: the clocks and the active list are assigned only through setActiveStates/recoverFinalPhase (ghost counter 'applied'; frame clause); a Canceled result of a non-auto mutation without a handler fault on a live machine implies the target was never applied (canceled_noop); a check mutation (CanAdd/CanRemove) never applies and never prepends an auto mutation (check_pure); the target is applied at most once (single_apply). setActiveStates (C01) makes the application one step under the write lock. Entry points Add/Remove/Set/CanAdd/CanRemove are verified to return Canceled with no effect when the machine is disposing, backing off or (Exception aside) over the queue limit. statesToSet/setupAccepted/setupExitEnter carry the per-muta",
  design_ref="DESIGN.md 3 (C03)",
  note="Trusted: gocv, go/types, SMT solvers; unverified remainder: Machine.handle (handler dispatch), PrependMut, processQueue, queueMutation, recoverFinalPhase are trusted frame contracts here; TxInv (what newTransition establishes) is a precondition of emitEvents; CanAdd/CanRemove predicting the real mutation's result; Backoff() is time-based: modelled as a pure function sampled once",
  technique=TECH),
 "C05": dict(
  category="other",
  text="Lifecycle order as call-site obligations inside the verified Transition.emitEvents: each negotiation emitter and the final-handler emitter carry a ghost phase precondition (Exit <= Enter <= Self <= StateState < apply < finals), so any reordering, a final handler before the target is applied, or a negotiation handler after it fails a named precondition; final handlers and TransitionFinals tracers are called only with TimeAfter equal to the machine's real time; a negotiation Canceled result prevents application (C03 canceled_noop); setupExitEnter is proved to compute Exits = before minus target and Enters = target minus before plus directly called Multi states. 'other' because the per-binding dispatch (processHandlers), the After/Require ordering of SortStates (sort.SliceStable is modelled as an arbitrary permutation) and exactly-once-per-binding are not under contract.",
  design_ref="DESIGN.md 3 (C05)",
  note="Trusted: gocv, go/types, SMT solvers; unverified remainder: processHandlers / handler goroutine protocol; After/Require ordering inside Exits and Enters (known design-time finding: the After comparator is not a strict weak order) - not decided; negotiation emitters' internals (partial auto acceptance) are trusted frame contracts",
  technique=TECH),
 "C07": dict(
  category="other",
  text="DefaultRelationsResolver.NewAutoMutation is proved to call exactly the inactive Auto states that no active state Removes, each once, in state-name order (nil iff there are none; an Add mutation flagged auto with no queue tick). The verified Transition.emitEvents proves: an auto or check mutation never prepends an auto mutation (auto_once), at most one is prepended (auto_atmost1), and a transition that changed nothing prepends none (nochange_noauto). setupAccepted is proved to accept an auto transition iff at least one called state survives in the target. 'other' because 'the very next transition' depends on PrependMut/processQueue (trusted here) and the per-state partial acceptance inside the negotiation emitters is not under contract.",
  design_ref="DESIGN.md 3 (C07)",
  note='Trusted: gocv, go/types, SMT solvers; unverified remainder: negotiation emitters (partial auto acceptance branches) are trusted frame contracts; PrependMut / processQueue ordering (C04); concurrent PrependMut callers',
  technique=TECH),
 "C14": dict(
  category="other",
  text="Inside the verified Transition.emitEvents the tracer callbacks are interface contracts with ghost counters: TransitionStart is called only before any Finals/End, TransitionFinals only after the target is applied and with TimeAfter equal to the machine's time, TransitionEnd with TimeAfter equal to the machine's time on fault-free paths (including canceled and check transitions, whose TimeAfter must equal the unchanged clock); any reordering of these or of the TimeAfter assignment fails a named call-site precondition. 'other' because newTransition (TransitionInit, TimeBefore), the before/after chaining across transitions and exactly-once-per-tracer counting are not under contract.",
  design_ref="DESIGN.md 3 (C14)",
  note='Trusted: gocv, go/types, SMT solvers; unverified remainder: newTransition / processQueue (TransitionInit, chaining of TimeBefore to the previous TimeAfter); telemetry and history consumers copying the times; tracer list changing during a transition',
  technique=TECH),
 "C10": dict(
  category="proof",
  text="Every obligation generated from the current source of the RPC clock codec (encoder genDeepUpdate/genShallowUpdate/calcUpdate, decoder Client.clockFromUpdate, Checksum) against functional contracts is discharged by an SMT solver for all state counts, tracked subsets and tick values (unbounded, wrap-exact unsigned arithmetic); the round-trip and checksum clauses are lemmas over those contracts. Proof level is right here because the property is pure integer/array code with no schedule dimension.",
  design_ref="DESIGN.md 3 (C10)",
  note="Trusted: gocv VC generator, go/types, z3/cvc5; the Snap shape invariant of snapshots is a precondition from the construction sites; field-truncation cases (queue-tick diff >= 2^16, tick diff >= 2^32, machine-tick diff >= 2^8) are stated as explicit case hypotheses of the lemma; transport codec out of scope.",
  technique="contract-based deductive verification (WP/symbolic-execution VCs over go/ast+go/types, SMT: z3 5.1/4.8, cvc5)"),
}

# single source for the level text and category: props/<id>.json (also used for the evidence files)
for _k, _c in CLAIMS.items():
    _pj = os.path.join(V, "props", _k + ".json")
    if os.path.exists(_pj):
        _d = json.load(open(_pj))
        _c["text"] = _d["explanation"]
        _c["category"] = _d.get("level", _c["category"])

NA = {
 "C09": "convergence/liveness over network schedules and fault sequences: no per-call contract expresses it and the verifier has no thread/channel semantics; the codec and drift detection it rests on are decided under C10",
 "C18": "every clause is about the goroutine ordering of forked pipe handlers or about non-blocking; a contract verifier without goroutine semantics decides no clause of the statement",
}
PENDING = "not claimed at this commit: contracts for this property are not yet written/discharged (see DESIGN.md section 3 for the plan)"

props = [json.loads(l)["id"] for l in open(os.path.join(V, "properties.jsonl"))]
hooks = subprocess.run(["git", "-C", "/repo", "log", "--format=%h %s"], capture_output=True, text=True).stdout.splitlines()
hook_commits = [l.split()[0] for l in hooks if l.split(" ", 1)[1].startswith("verif:")]

m = {
 "version": 1,
 "setup_cmd": "cd /verif/engine && GOFLAGS=-mod=mod GOPROXY=off go build -o /verif/bin/gocv ./cmd/gocv",
 "hooks": {
  "guard": "verif",
  "enable": "go build -tags verif ./...  (the guarded files zz_contracts*_verif.go are comment-only contract files; gocv reads them with its own parser regardless of the tag)",
  "baseline_off_cmd": "for m in $(cat /w/out/gomods.txt); do MF=$(cd /repo/$m && . /w/out/goenv.sh && gomodflag); (cd /repo/$m && go test $MF -json -vet=off -count=1 -timeout 25m ./...); done",
  "source_commits": list(reversed(hook_commits)),
  "add_only": True,
 },
 "engines": [{
  "name": "gocv", "path": "/verif/engine", "serves_properties": sorted(CLAIMS),
  "kind_free_text": "contract-based deductive verifier for Go written for this task: contracts in //@ comments (guarded comment-only files in /repo), VC generation by symbolic execution over go/ast+go/types with loop invariants, frames and modular calls, discharged by z3 5.1.0 / z3 4.8.12 / cvc5 1.0.3"}],
 "checks": [],
 "notes": "See DESIGN.md. Verdict policy: an obligation recorded as proved in baseline/ledger.json that no longer discharges is a VIOLATION (replay file names it and carries the solver output; no-failing-input-found when the solver gives no model); never-proved or structurally changed obligations are UNDECIDED (exit 0). Known findings: known_findings.json.",
 "not_applicable": [],
}
for p in props:
    if p in CLAIMS:
        c = CLAIMS[p]
        m["checks"].append({
         "property_id": p,
         "quick_cmd": f"./check {p} quick",
         "thorough_cmd": f"./check {p} thorough",
         "evidence_file": f"/verif/evidence/{p}.json",
         "replay_cmd_template": "./check replay {path}",
         "engine": "gocv",
         "level_claimed": {"category": c["category"], "text": c["text"], "design_ref": c["design_ref"]},
         "level_note": c["note"],
         "technique": c["technique"],
        })
    else:
        m["not_applicable"].append({"property_id": p, "reason": NA.get(p, PENDING)})
json.dump(m, open(os.path.join(V, "MANIFEST.json"), "w"), indent=1)
print("claimed:", sorted(CLAIMS), "n/a:", len(m["not_applicable"]))
