#!/usr/bin/env python3
"""Prepares scratch worktrees and prompts for a round of seeded changes.
usage: mkseedround.py C01 C02 ...
For each property: /tmp/seed/<id> becomes a detached worktree of /repo's HEAD with the
contract files removed (a scratch commit), out/ is emptied, PROPERTY.txt and PROMPT.txt
are written. The prompt carries only the property text, the offline recipe and the list
of functions earlier rounds already changed (taken from the hunk headers of
/verif/seeded/<id>-*/patch.diff) - nothing else from /verif."""
import json, os, re, subprocess, sys, glob

V = os.path.dirname(os.path.dirname(os.path.abspath(__file__)))
PKGS = {
    "C10": "./pkg/rpc/   (timing-flaky, see above)",
    "C12": "./pkg/machine/   (the race detector works offline: go test -race; the existing suite runs WITHOUT -race)",
    "C13": "./pkg/machine/ ./pkg/helpers/",
    "C14": "./pkg/machine/ ./pkg/history/test/",
    "C15": "-run '^(TestClientSupervisor|TestFork1|TestFork1Process|TestFork5Warm2Min2)$' ./pkg/node/   (the full pkg/node suite takes over 20 minutes: run only these)",
    "C16": "./tools/debugger/... ./pkg/helpers/...",
    "C17": "./pkg/history/test/ ./pkg/machine/",
    "C19": "./pkg/machine/ ./pkg/states/...",
    "C20": "./pkg/machine/ ./pkg/helpers/...",
}
EXTRA = {
    "C12": "\nFor this property a demonstration may rely on the race detector: say so in the first comment lines of the demo (`// run with: go test -race`), make it report the race in at least 9 of 10 runs with your change and never on the unchanged tree. The unchanged tree already has races involving SetSchema and first-time StateNames() calls: stay away from those.\n",
    "C17": "\nStay within pkg/history (the in-memory backend and the shared query helpers) and pkg/machine's Export/Import; the bbolt, badger and SQL backends are out of scope for this round.\n",
}


def sh(*a, cwd=None):
    return subprocess.run(a, cwd=cwd, capture_output=True, text=True)


props = {}
for l in open(V + "/properties.jsonl"):
    d = json.loads(l)
    props[d["id"]] = d
tmpl = open(V + "/tools/seed_prompt.tmpl").read()
head = sh("git", "-C", "/repo", "rev-parse", "HEAD").stdout.strip()
for pid in sys.argv[1:]:
    wt = "/tmp/seed/" + pid
    if not os.path.isdir(wt + "/pkg"):
        sh("git", "-C", "/repo", "worktree", "remove", "--force", wt)
        r = sh("git", "-C", "/repo", "worktree", "add", "--detach", wt, head)
        if r.returncode != 0:
            print(pid, "worktree failed", r.stderr)
            continue
    sh("git", "checkout", "-q", "--", ".", cwd=wt)
    sh("git", "clean", "-fdq", cwd=wt)
    sh("git", "checkout", "-q", "--detach", head, cwd=wt)
    files = [f for f in sh("git", "ls-files", cwd=wt).stdout.split() if f.endswith("zz_contracts_verif.go")]
    if files:
        sh("git", "rm", "-q", *files, cwd=wt)
        sh("git", "commit", "-qm", "scratch", cwd=wt)
    os.makedirs(wt + "/out", exist_ok=True)
    for f in glob.glob(wt + "/out/*"):
        os.remove(f)
    json.dump(props[pid], open(wt + "/PROPERTY.txt", "w"), indent=1)
    earlier = []
    for pf in sorted(glob.glob(V + "/seeded/" + pid + "-*/patch.diff")):
        for l in open(pf):
            m = re.match(r"@@ [^@]* @@ (.*)", l)
            if m and m.group(1).strip() and m.group(1).strip() not in earlier:
                earlier.append(m.group(1).strip())
    p = tmpl.replace("@ID@", pid).replace("@PKGS@", PKGS.get(pid, "./pkg/machine/"))
    if earlier:
        p += "\nEarlier rounds already produced changes inside these functions / declarations; pick DIFFERENT functions and a different mechanism for both of your changes:\n" + "\n".join(earlier) + "\n"
    p += EXTRA.get(pid, "")
    open(wt + "/PROMPT.txt", "w").write(p)
    print(pid, "ready at", sh("git", "rev-parse", "--short", "HEAD", cwd=wt).stdout.strip(), "earlier:", len(earlier))
