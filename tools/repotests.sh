#!/bin/bash
# Runs the packages of the pinned suite's stable-pass list on /repo (pkg/node restricted to its 4 listed tests;
# the full pkg/node suite takes over 20 minutes). pkg/rpc is timing-flaky (about 1 run in 10 at the pinned commit).
cd /repo; export GOFLAGS=-mod=mod GOPROXY=off
go test -vet=off -count=1 -timeout 20m ./examples/fsm/ ./examples/nfa/ ./examples/relations_playground/ ./examples/temporal_expense/ ./examples/temporal_fileprocessing/ \
  ./pkg/history/badger/ ./pkg/history/gorm/ ./pkg/history/test/ ./pkg/integrations/nats/ ./pkg/machine/ ./pkg/pubsub/ ./pkg/rpc/ ./pkg/states/pipes/ ./pkg/telemetry/ ./pkg/x/helpers/ \
  ./tools/debugger/ ./tools/generator/ 2>&1 | grep -E "^(ok|FAIL|---|panic)" 
go test -vet=off -count=1 -timeout 20m -run '^(TestClientSupervisor|TestFork1|TestFork1Process|TestFork5Warm2Min2)$' ./pkg/node/ 2>&1 | tail -2
