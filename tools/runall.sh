#!/bin/bash
# usage: runall.sh [quick|thorough] : runs every claimed check on the tree as it is and validates the evidence files
cd "$(dirname "$0")/.."
tier=${1:-quick}
props=$(python3 -c "import json;print(' '.join(c['property_id'] for c in json.load(open('MANIFEST.json'))['checks']))")
rc=0
for p in $props; do
  out=$(./check $p $tier 2>&1); e=$?
  echo "$out" | grep -E "^(VIOLATION|SELFTEST|property=)" | cut -c1-220
  [ $e -ne 0 ] && { echo "EXIT $e for $p"; rc=1; }
done
python3-vt - <<'PY'
import json,jsonschema,sys
sch=json.load(open('/root/.vp/EVIDENCE.schema.json'))
m=json.load(open('/verif/MANIFEST.json'))
bad=0
for c in m['checks']:
    p=c['property_id']
    try:
        ev=json.load(open(f'/verif/evidence/{p}.json'))
        jsonschema.validate(ev,sch)
        if ev['level']!=c['level_claimed']['category']:
            print('LEVEL MISMATCH',p,ev['level'],c['level_claimed']['category']); bad=1
    except Exception as e:
        print('EVIDENCE INVALID',p,str(e)[:200]); bad=1
print('evidence ok' if not bad else 'evidence problems')
PY
exit $rc
