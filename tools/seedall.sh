#!/bin/bash
# usage: seedall.sh [seed-id ...]   (default: every /verif/seeded/*)
# Runs each seeded change against the quick checks in a scratch worktree of /repo's
# HEAD (never /repo itself), with evidence and replay files redirected to a scratch
# directory, and records the outcome in seeded/<id>/result.json.
set -u
export GOFLAGS=-mod=mod GOPROXY=off
WT=/tmp/w/seedall-repo-$$; OUT=/tmp/w/seedall-out-$$
git -C /repo worktree remove --force $WT 2>/dev/null; rm -rf $WT $OUT; mkdir -p $OUT /tmp/w
git -C /repo worktree add -q --detach $WT HEAD || exit 2
# frozen copies of the verifier, the ledgers and the other inputs of a check, so that
# work going on in /verif does not disturb the run
SNAP=/tmp/w/seedall-verif-$$; rm -rf $SNAP; mkdir -p $SNAP/bin
(cd /verif/engine && go build -o $SNAP/bin/gocv ./cmd/gocv) || exit 2
cp -r /verif/baseline /verif/props /verif/speclib /verif/witness /verif/known_findings.json $SNAP/
ids="$*"; [ -z "$ids" ] && ids=$(ls /verif/seeded)
for id in $ids; do
  d=/verif/seeded/$id; prop=${id%%-*}
  props=$(python3 -c "import json;m=json.load(open('$d/meta.json'));print(' '.join(m.get('check_props',['$prop'])))")
  (cd $WT && git checkout -q -- . && git clean -fdq)
  if ! git -C $WT apply $d/patch.diff 2>/dev/null; then echo "$id APPLY-FAILED"; continue; fi
  viol=""; und=""
  for p in $props; do
    out=$(cd $SNAP && GOCV_OUT=$OUT $SNAP/bin/gocv check -verif $SNAP -repo $WT $p quick 2>&1)
    echo "$out" | grep -q "^property=$p " || { echo "$id CHECK-DID-NOT-RUN ($p)"; continue 2; }
    viol="$viol$(echo "$out" | grep '^VIOLATION' | sed 's/.*obligation=\([^ ]*\).*/\1/' | sed "s/^/$p:/" | tr '\n' ' ')"
    und="$und$(echo "$out" | grep '^UNDECIDED.*outside the verified subset' | sed 's/.*function=\([^ ]*\).*/\1/' | sed "s/^/$p:/" | tr '\n' ' ')"
  done
  python3 - "$d" "$viol" "$und" "$(git -C /repo rev-parse --short HEAD)" <<'PY'
import json,sys
d,viol,und,head=sys.argv[1:5]
r={"repo_head":head,"detected":bool(viol.strip()),"violations":viol.split(),"outside_subset":und.split()}
json.dump(r,open(d+"/result.json","w"),indent=1)
print(d.split('/')[-1], "DETECTED" if r["detected"] else "missed", " ".join(r["violations"][:3]), ("outside-subset: "+" ".join(r["outside_subset"])) if r["outside_subset"] else "")
PY
done
git -C /repo worktree remove --force $WT; rm -rf $OUT $SNAP
