#!/bin/bash
# usage: seedall.sh [seed-id ...]   (default: every /verif/seeded/*)
# Runs each seeded change against the quick checks in a scratch worktree of /repo's
# HEAD (never /repo itself), with evidence and replay files redirected to a scratch
# directory, and records the outcome in seeded/<id>/result.json.
set -u
export GOFLAGS=-mod=mod GOPROXY=off
WT=/tmp/w/seedall-repo; OUT=/tmp/w/seedall-out
git -C /repo worktree remove --force $WT 2>/dev/null; rm -rf $WT $OUT; mkdir -p $OUT /tmp/w
git -C /repo worktree add -q --detach $WT HEAD || exit 2
ids="$*"; [ -z "$ids" ] && ids=$(ls /verif/seeded)
for id in $ids; do
  d=/verif/seeded/$id; prop=${id%%-*}
  props=$(python3 -c "import json;m=json.load(open('$d/meta.json'));print(' '.join(m.get('check_props',['$prop'])))")
  (cd $WT && git checkout -q -- . && git clean -fdq)
  if ! git -C $WT apply $d/patch.diff 2>/dev/null; then echo "$id APPLY-FAILED"; continue; fi
  viol=""; und=""
  for p in $props; do
    out=$(cd /verif && GOCV_REPO=$WT GOCV_OUT=$OUT ./check $p quick 2>&1)
    viol="$viol$(echo "$out" | grep '^VIOLATION' | sed 's/.*obligation=\([^ ]*\).*/\1/' | sed "s/^/$p:/" | tr '\n' ' ')"
    und="$und$(echo "$out" | grep '^UNDECIDED.*outside the verified subset' | sed 's/.*function=\([^ ]*\).*/\1/' | sed "s/^/$p:/" | tr '\n' ' ')"
  done
  python3 - "$d" "$viol" "$und" "$(git -C /repo rev-parse --short HEAD)" <<'PY'
import json,sys
d,viol,und,head=sys.argv[1:5]
r={"repo_head":head,"detected":bool(viol.strip()),"violations":viol.split(),"outside_subset":und.split()}
json.dump(r,open(d+"/result.json","w"),indent=1)
print(d.split('/')[-1], "DETECTED" if r["detected"] else "missed", " ".join(r["violations"][:3]), ("outside-subset: "+" ".join(r["outside_subset"])) if r["outside_subset"] else "")
PY
done
git -C /repo worktree remove --force $WT; rm -rf $OUT
