#!/bin/bash
# usage: seedcheck.sh <seed-id> "<props>" : applies /verif/seeded/<id>/patch.diff to /repo, runs the quick checks, undoes it.
set -u
ID=$1; PROPS=$2
[ -z "$(git -C /repo status --porcelain)" ] || { echo "REFUSING: /repo has uncommitted changes"; exit 2; }
git -C /repo apply /verif/seeded/$ID/patch.diff || { echo "APPLY FAILED"; exit 2; }
for p in $PROPS; do (cd /verif && GOCV_OUT=/tmp/w/seedcheck-out ./check $p quick 2>&1 | grep -E "^(VIOLATION|property=)" | cut -c1-230); done
git -C /repo checkout -- .
