#!/usr/bin/env python3
"""Regenerates section 10 of DESIGN.md (seeded changes and which obligations caught them)
from /verif/seeded/<id>/{meta.json,result.json}."""
import json, os, re
V = os.path.dirname(os.path.dirname(os.path.abspath(__file__)))
rows = []
for d in sorted(os.listdir(V + "/seeded")):
    p = V + "/seeded/" + d
    try:
        m = json.load(open(p + "/meta.json"))
    except Exception:
        continue
    r = {}
    if os.path.exists(p + "/result.json"):
        r = json.load(open(p + "/result.json"))
    summ = re.sub(r"\s+", " ", m.get("summary", "")).strip()
    if len(summ) > 230:
        summ = summ[:227] + "..."
    if r.get("detected"):
        obls = [v.split(":", 1)[1] for v in r.get("violations", [])]
        short = ", ".join("`" + o.split(".", 1)[-1] + "`" if not o.startswith("bounded.") else "`" + o + "`" for o in obls[:3])
        verdict = "caught: " + short + (" ..." if len(obls) > 3 else "")
    elif r:
        why = m.get("missed_reason", "")
        if r.get("outside_subset"):
            why = why or "the rewritten function leaves the verified subset / its loop invariants name locals that no longer exist: UNDECIDED by policy (2.7)"
        verdict = "**missed**" + (": " + why if why else "")
    else:
        verdict = "not run"
    rows.append("| %s | %s | %s |" % (d, summ.replace("|", "/"), verdict.replace("|", "/")))
det = sum(1 for r in rows if "| caught" in r)
text = ["## 10. Seeded changes (realistic property-breaking edits) and what catches them", "",
        "Written by fresh sub-agents that saw only the text of one property and a scratch worktree of",
        "`/repo` without the contract files; each change compiles, passes the existing tests of the",
        "packages it touches and fails its own demonstration test (confirmed with `tools/seedtest.sh`).",
        "`tools/seedall.sh` applies each to a scratch worktree and runs the quick checks of its property",
        "with a frozen copy of the verifier and ledgers; the outcome is stored in `seeded/<id>/result.json`.",
        "", "%d of %d caught at the commit of the last run." % (det, len(rows)), "",
        "| seed | change | outcome of the check |", "|---|---|---|"] + rows + [""]
s = open(V + "/DESIGN.md").read()
a, b = "<!-- seedtable:begin -->", "<!-- seedtable:end -->"
block = a + "\n" + "\n".join(text) + "\n" + b
if a in s:
    s = s[:s.index(a)] + block + s[s.index(b) + len(b):]
else:
    s = s.rstrip("\n") + "\n\n" + block + "\n"
open(V + "/DESIGN.md", "w").write(s)
print("seed table: %d/%d caught" % (det, len(rows)))
