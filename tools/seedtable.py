#!/usr/bin/env python3
"""Regenerates section 10 of DESIGN.md (seeded changes and which obligations caught them)
from /verif/seeded/<id>/{meta.json,result.json}."""
import json, os, re
V = os.path.dirname(os.path.dirname(os.path.abspath(__file__)))
rows = []
for d in sorted(os.listdir(V + "/seeded")):
    p = V + "/seeded/" + d
    try:
        m = json.load(open(p + "/meta.json"))
    except Exception:
        continue
    r = {}
    if os.path.exists(p + "/result.json"):
        r = json.load(open(p + "/result.json"))
    summ = re.sub(r"\s+", " ", m.get("summary", "")).strip()
    if len(summ) > 230:
        summ = summ[:227] + "..."
    if r.get("detected"):
        obls = [v.split(":", 1)[1] for v in r.get("violations", [])]
        short = ", ".join("`" + o.split(".", 1)[-1] + "`" if not o.startswith("bounded.") else "`" + o + "`" for o in obls[:3])
        verdict = "caught: " + short + (" ..." if len(obls) > 3 else "")
    elif r:
        why = m.get("missed_reason", "")
        if r.get("outside_subset"):
            why = why or "the rewritten function leaves the verified subset / its loop invariants name locals that no longer exist: UNDECIDED by policy (2.7)"
        verdict = "**missed**" + (": " + why if why else "")
    else:
        verdict = "not run"
    rows.append("| %s | %s | %s |" % (d, summ.replace("|", "/"), verdict.replace("|", "/")))
det = sum(1 for r in rows if "| caught" in r)
text = ["## 10. Seeded changes (realistic property-breaking edits) and what catches them", "",
        "Written by fresh sub-agents that saw only the text of one property and a scratch worktree of",
        "`/repo` without the contract files; each change compiles, passes the existing tests of the",
        "packages it touches and fails its own demonstration test (confirmed with `tools/seedtest.sh`).",
        "`tools/seedall.sh` applies each to a scratch worktree and runs the quick checks of its property",
        "with a frozen copy of the verifier and ledgers; the outcome is stored in `seeded/<id>/result.json`.",
        "", "%d of %d caught at the commit of the last run." % (det, len(rows)), "",
        "Six rounds (33, 20, 20, 36, 24 and 7 changes; later rounds were told which functions earlier",
        "rounds had used). Changes that were first MISSED and what was strengthened because of them",
        "(every one is caught now): C15-3 second fork gate under contract; C17-3 and C01-5 `Import`",
        "under contract (found two defects); C04-4 scripts issued from a tracer's QueueEnd hook; C06-4",
        "out-of-order WhenQueue subscriptions, queue family also under C06; C11-3 exclusive groups sharing",
        "one relation slice; C13-3 / C13-4 detached handlers, pending Eval, handler goroutine exit, and the",
        "rule that a crashing stand-in is a violation; C17-1 the bounded history stand-in (completeness of",
        "FindLatest); C03-6 Can* on already active states; C14-5 queue family under C14; C14-6 accessor",
        "views read at every tracer hook; C05-5 two bindings of one struct type; C06-5 / C06-6 several",
        "WhenQuery in one transition and context-bound waits; C08-6 / C08-8 abandoned handler and the",
        "backoff window; C20-7 wait helpers under contract and the helpers stand-in; C13-6 WhenQueueEnds",
        "after disposal; C04-6 mutations issued from an Eval func; C11-5 / C11-6 VerifyStates with a",
        "repeated name, order after a fault; C20-8 concrete search for NEW failing obligations; C13-7 /",
        "C13-8 shared WhenTime, late OnDispose; C17-8 Export inside a transition; C06-7 completed",
        "context-bound multi-state When; C01-8 shared copy of the state names kept consistent; C03-8 Can*",
        "on the removal of inactive states; C02-7 / C02-8 emitEvents and setupAccepted also under C02; C14-7",
        "TracerDetach under contract and detach cases in the tracer stand-in; C05-7 negotiation family also",
        "under C05; C16-6 and C16-8 the parse step `hParseMsg` and the telemetry tracer's record anchor under",
        "contract; C04-7 `EvRemove` under contract; C19-7 `State.Clone` keeps nil vs. empty, `StateSet` family",
        "under contract (section 11). Earlier",
        "rounds: see 8.2 (loop-head havoc found through C14-1) and the `check_props` entries of the",
        "seeds that a neighbouring property's check catches (C01-4 by C02, C14-4 by C17). Still missed,",
        "with the reason in the table: C15-2, C15-5, C17-4 (C12-8 was missed until the race-detector",
        "program family for the network machine was added).", "",
        "| seed | change | outcome of the check |", "|---|---|---|"] + rows + [""]
s = open(V + "/DESIGN.md").read()
a, b = "<!-- seedtable:begin -->", "<!-- seedtable:end -->"
block = a + "\n" + "\n".join(text) + "\n" + b
if a in s:
    s = s[:s.index(a)] + block + s[s.index(b) + len(b):]
else:
    s = s.rstrip("\n") + "\n\n" + block + "\n"
open(V + "/DESIGN.md", "w").write(s)
print("seed table: %d/%d caught" % (det, len(rows)))
