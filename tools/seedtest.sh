#!/bin/bash
# usage: seedtest.sh <scratch-worktree> <diff> <demo_test.go> <pkgdir> "<props to check>"
# Confirms a seeded change in the scratch worktree (builds, existing tests of pkgdir pass,
# demo fails with / passes without), then applies it to /repo, runs the checks, and undoes it.
set -u
WT=$1; DIFF=$2; DEMO=$3; PKG=$4; PROPS=$5
export GOFLAGS=-mod=mod GOPROXY=off
cd "$WT" || exit 2
git checkout -q -- . ; rm -f "$PKG"/zz_seed_demo_test.go
cp "$DEMO" "$PKG/zz_seed_demo_test.go"
NAMES=$(grep -o '^func Test[A-Za-z0-9_]*' "$DEMO" | sed 's/func //' | paste -sd'|')
echo "== without change: demo"
go test -vet=off -count=1 -timeout 300s -run "^($NAMES)\$" "./$PKG/" 2>&1 | tail -2
git apply "$DIFF" || { echo "APPLY FAILED"; exit 2; }
echo "== with change: build"
go build ./pkg/... 2>&1 | tail -3
echo "== with change: demo (must fail)"
go test -vet=off -count=1 -timeout 300s -run "^($NAMES)\$" "./$PKG/" 2>&1 | tail -3
rm -f "$PKG/zz_seed_demo_test.go"
echo "== with change: existing tests of $PKG"
go test -vet=off -count=1 -timeout 900s "./$PKG/" 2>&1 | tail -3
git checkout -q -- .
echo "== checks on /repo with the change"
[ -z "$(git -C /repo status --porcelain)" ] || { echo "REFUSING: /repo has uncommitted changes"; exit 2; }
git -C /repo apply "$DIFF" || { echo "APPLY to /repo FAILED (contract files?)"; exit 2; }
for p in $PROPS; do (cd /verif && GOCV_OUT=/tmp/w/seedcheck-out ./check $p quick 2>&1 | grep -E "^(VIOLATION|property=)" | cut -c1-260); done
git -C /repo checkout -- .
git -C /repo status --short | head -3
