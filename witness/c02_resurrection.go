package machine

import (
	"context"
	"slices"
	"testing"
)

// Witness for the C02 finding "resurrected state": a state that the block scan
// removed is re-added by the second parseAdd pass and its Remove relation is
// never applied, so the target contains N together with M although N Removes M.
// PASSES while the defect is present.
func TestVerifWitnessResurrection(t *testing.T) {
	schema := Schema{
		"K": {Remove: S{"B"}},
		"B": {Remove: S{"N"}},
		"N": {Remove: S{"M"}},
		"M": {},
		"X": {Add: S{"N"}},
	}
	m := New(context.Background(), schema, nil)
	defer m.Dispose()
	m.Add(S{"M", "B"}, nil)
	m.Add(S{"X", "K"}, nil)
	act := m.ActiveStates(nil)
	if slices.Contains(act, "N") && slices.Contains(act, "M") {
		return // defect present: N active together with M which it Removes
	}
	t.Fatalf("defect not present: %v", act)
}

// Witness for the C02 finding "Add relations are followed one level only":
// X -Add-> Y -Add-> Z -Add-> W, Z Removes the active M. Add X activates Z
// without applying its Remove relation and W (Add of Z) is missing.
func TestVerifWitnessAddOneLevel(t *testing.T) {
	schema := Schema{
		"X": {Add: S{"Y"}},
		"Y": {Add: S{"Z"}},
		"Z": {Add: S{"W"}, Remove: S{"M"}},
		"W": {},
		"M": {},
	}
	m := New(context.Background(), schema, nil)
	defer m.Dispose()
	m.Add(S{"M"}, nil)
	m.Add(S{"X"}, nil)
	act := m.ActiveStates(nil)
	if slices.Contains(act, "Z") && (slices.Contains(act, "M") || !slices.Contains(act, "W")) {
		return // defect present
	}
	t.Fatalf("defect not present: %v", act)
}
