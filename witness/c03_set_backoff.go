package machine

import (
	"context"
	"testing"
	"time"
)

// Witness for the C03 finding: Set has no Backoff() guard. During a backoff
// window Add is Canceled but Set executes. PASSES while the defect is present.
func TestVerifWitnessSetBackoff(t *testing.T) {
	m := New(context.Background(), Schema{"A": {}, "B": {}}, nil)
	defer m.Dispose()
	now := time.Now()
	m.HandlerBackoff = time.Hour
	m.LastHandlerDeadline.Store(&now)
	if !m.Backoff() {
		t.Fatal("test setup: machine should be backing off")
	}
	if m.Add1("A", nil) != Canceled {
		t.Fatal("test setup: Add should be canceled during backoff")
	}
	if m.Set(S{"B"}, nil) == Canceled && m.Not1("B") {
		t.Fatalf("defect not present: Set is refused during backoff")
	}
}
