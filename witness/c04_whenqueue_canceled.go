package machine

import (
	"context"
	"testing"
)

// Witness for the WhenQueue defect (C04/C06): a queued mutation which is then
// canceled (here: vetoed by CEnter) is processed, the queue tick moves on, but
// WhenQueue(tick) is only released by processSubscriptions, which runs for
// accepted transitions only - the channel stays open on the idle machine.
// PASSES while the defect is present.
func TestVerifWitnessWhenQueueCanceled(t *testing.T) {
	ctx, cancel := context.WithCancel(context.Background())
	defer cancel()
	m := New(ctx, Schema{"A": {}, "C": {}}, nil)
	var wait <-chan struct{}
	_, err := m.HandlersBindMaps(
		map[string]HandlerNegotiation{"CEnter": func(e *Event) bool { return false }},
		map[string]HandlerFinal{"AState": func(e *Event) {
			r := m.Add1("C", nil) // queued (we are inside a transition), later vetoed
			if r > Queued {
				wait = m.WhenQueue(r)
			}
		}})
	if err != nil {
		t.Fatal(err)
	}
	m.Add1("A", nil)
	if wait == nil || m.QueueLen() != 0 || m.Is1("C") {
		t.Fatalf("not the scenario")
	}
	select {
	case <-wait:
		t.Fatalf("defect not present: WhenQueue of the canceled mutation is closed")
	default:
	}
	t.Logf("machine idle at queue tick %d, WhenQueue of the canceled mutation still open", m.QueueTick())
}
