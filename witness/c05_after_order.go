package machine

import (
	"context"
	"testing"
)

// Witness for the After-order defect (C05): SortStates orders by After with
// sort.SliceStable and a comparator that is not a strict weak order, so an After
// relation between states that are not adjacent in the list is not honoured:
// A After C, Add{A,B,C,D} resolves (and runs the handlers of) A before C.
// PASSES while the defect is present.
func TestVerifWitnessAfterOrder(t *testing.T) {
	ctx, cancel := context.WithCancel(context.Background())
	defer cancel()
	m := New(ctx, Schema{"A": {After: S{"C"}}, "B": {}, "C": {}, "D": {}}, nil)
	m.Add(S{"A", "B", "C", "D"}, nil)
	act := m.ActiveStates(nil)
	ia, ic := -1, -1
	for i, s := range act {
		if s == "A" {
			ia = i
		}
		if s == "C" {
			ic = i
		}
	}
	if ia == -1 || ic == -1 {
		t.Fatalf("not the scenario: %v", act)
	}
	if ic < ia {
		t.Fatalf("defect not present: C is ordered before A: %v", act)
	}
	t.Logf("resolved order %v: A comes before C although A is After C", act)
}
