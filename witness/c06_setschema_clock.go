package machine

import (
	"context"
	"testing"
)

// Witness for the SetSchema defect (C06): SetSchema hands the subscription
// manager a COPY of the clock (m.Clock(nil)), so time-based subscriptions taken
// after a schema change compare against ticks that never move: WhenTime1(A, 1)
// stays open after A was activated. PASSES while the defect is present.
func TestVerifWitnessSetSchemaStaleClock(t *testing.T) {
	ctx, cancel := context.WithCancel(context.Background())
	defer cancel()
	m := New(ctx, Schema{"A": {}, "B": {}}, nil)
	err := m.SetSchema(Schema{"A": {}, "B": {}, "C": {}, StateException: {Multi: true}}, S{"A", "B", StateException, "C"})
	if err != nil {
		t.Fatal(err)
	}
	ch := m.WhenTime1("A", 1, nil)
	m.Add1("A", nil)
	if m.Tick("A") != 1 {
		t.Fatalf("not the scenario: tick %d", m.Tick("A"))
	}
	select {
	case <-ch:
		t.Fatalf("defect not present: WhenTime1(A,1) closed once A reached tick 1")
	default:
	}
	t.Logf("A is at tick %d, WhenTime1(A,1) still open", m.Tick("A"))
}
