package machine

import (
	"context"
	"testing"
)

// Witnesses for three defects of the WhenQuery subscription (C06/C13/C20).
// Each test PASSES while its defect is present.

// A: WhenQuery with a context writes to the nil map whenQueryCtx.
func TestVerifWitnessWhenQueryCtxNilMap(t *testing.T) {
	m := New(context.Background(), Schema{"A": {}}, nil)
	defer m.Dispose()
	defer func() {
		if r := recover(); r == nil {
			t.Fatalf("defect not present: WhenQuery with a context did not panic")
		}
	}()
	ctx, cancel := context.WithCancel(context.Background())
	defer cancel()
	m.WhenQuery(func(c Clock) bool { return false }, ctx)
}

// B: an expired context is deleted from the wrong index (whenArgsCtx), so the
// query index keeps it and the binding is collected again on the next
// transition, where it is no longer in the list.
func TestVerifWitnessWhenQueryCtxWrongMap(t *testing.T) {
	m := New(context.Background(), Schema{"A": {}, "B": {}}, nil)
	defer m.Dispose()
	// work around defect A to reach defect B
	m.subs.whenQueryCtx = map[context.Context][]*whenQueryBinding{}
	ctx, cancel := context.WithCancel(context.Background())
	never := func(c Clock) bool { return false }
	m.WhenQuery(never, ctx)
	q2 := m.WhenQuery(never, nil)
	cancel()
	m.Add1("A", nil)
	if len(m.subs.whenQueryCtx) == 0 {
		t.Fatalf("defect not present: the expired context was removed from the query index")
	}
	// second transition: the stale entry is processed again; with one binding
	// left the whole list is dropped although q2 never matched
	m.Add1("B", nil)
	if len(m.subs.whenQuery) != 0 {
		t.Fatalf("defect not present: the unrelated binding survived")
	}
	select {
	case <-q2:
	default:
		return // q2 was dropped without being closed: a lost wake-up
	}
}

// C: Dispose does not close WhenQuery channels.
func TestVerifWitnessWhenQueryDispose(t *testing.T) {
	m := New(context.Background(), Schema{"A": {}}, nil)
	q := m.WhenQuery(func(c Clock) bool { return false }, nil)
	m.Dispose()
	<-m.WhenDisposed()
	select {
	case <-q:
		t.Fatalf("defect not present: the channel was closed by Dispose")
	default:
	}
}
