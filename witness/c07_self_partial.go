package machine

import (
	"context"
	"testing"
)

type verifSelfVeto struct{}

// XX vetoes only inside auto mutations.
func (h *verifSelfVeto) XX(e *Event) bool { return !e.Mutation().IsAuto }

// Witness for the C07 finding: emitSelfEvents returned the result of the last
// handler it called, so when the last self handler of an auto mutation vetoes
// (and its Auto state is merely dropped from the target - partial acceptance)
// the whole auto mutation was canceled and the other called Auto states were
// not activated. PASSES while the defect is present.
func TestVerifWitnessSelfPartialCancelsAll(t *testing.T) {
	schema := Schema{
		"T": {},
		"U": {},
		"X": {Auto: true, Require: S{"T"}},
		"Y": {Auto: true, Require: S{"U"}},
	}
	m := New(context.Background(), schema, nil)
	defer m.Dispose()
	if err := m.VerifyStates(S{"T", "U", "Y", "X", StateException}); err != nil {
		t.Fatal(err)
	}
	m.Add1("T", nil) // auto mutation activates X
	if !m.Is1("X") || m.Is1("Y") {
		t.Fatalf("setup: want X active, Y inactive, got %s", m.String())
	}
	if _, err := m.BindHandlers(&verifSelfVeto{}); err != nil {
		t.Fatal(err)
	}
	m.Add1("U", nil) // accepted; the auto mutation then calls Y, XX vetoes in it
	if !m.Is1("U") {
		t.Fatalf("setup: U should be active, got %s", m.String())
	}
	if m.Is1("Y") {
		t.Fatalf("defect not present: Y was activated (%s)", m.String())
	}
}
