package machine

import (
	"context"
	"testing"
)

type verifWitnessEndFaultHandlers struct {
	ranA, ranD bool
}

func (h *verifWitnessEndFaultHandlers) BEnd(e *Event) { panic("boom in BEnd") }
func (h *verifWitnessEndFaultHandlers) AState(e *Event) { h.ranA = true }
func (h *verifWitnessEndFaultHandlers) DState(e *Event) { h.ranD = true }

// Witness for the final-phase recovery defect (C08): a fault in an End handler
// (here BEnd, the first final handler of Set{A,D} on a machine with B active)
// leaves the activations of A and D in place although AState / DState never ran,
// and B stays deactivated: recoverFinalPhase finds its position by the name of
// the latest handler's state, which End handlers leave empty. PASSES while the
// defect is present.
func TestVerifWitnessEndFaultNoRollback(t *testing.T) {
	m := New(context.Background(), Schema{"A": {}, "B": {}, "D": {}}, nil)
	defer m.Dispose()
	h := &verifWitnessEndFaultHandlers{}
	if _, err := m.BindHandlers(h); err != nil {
		t.Fatal(err)
	}
	m.Add1("B", nil)
	m.Set(S{"A", "D"}, nil)
	if h.ranA || h.ranD {
		t.Fatalf("AState/DState ran: not the scenario")
	}
	rolledBack := m.Is1("B") && m.Not(S{"A", "D"})
	if rolledBack {
		t.Fatalf("defect not present: the unfinished activations/deactivation were rolled back: %v", m.ActiveStates(nil))
	}
	t.Logf("active after the fault in BEnd: %v (A, D never got their final handlers)", m.ActiveStates(nil))
}
