package machine

import (
	"context"
	"errors"
	"testing"
	"time"
)

// Witness for the wedged-machine defect (C08): a handler that panics again
// while the Exception mutation caused by its first panic is being executed
// (here: an AnyState handler, which also runs for the Exception transition)
// takes the handler goroutine down, and recoverToErr returns early ("dont
// double handle an exception") without restarting it. The next handler call
// blocks forever on handlerStart: the mutation call never returns.
// PASSES while the defect is present.
func TestVerifWitnessPanicInExceptionTransitionWedges(t *testing.T) {
	ctx, cancel := context.WithCancel(context.Background())
	defer cancel()
	m := New(ctx, Schema{"A": {}, "B": {}}, &Opts{
		Id: "w-c08", HandlerTimeout: 250 * time.Millisecond,
	})
	for b := 0; b < 2; b++ {
		b := b
		fin := map[string]HandlerFinal{"AnyState": func(e *Event) {
			if b == 0 {
				panic(errors.New("boom"))
			}
		}}
		if _, err := m.HandlersBindMaps(nil, fin); err != nil {
			t.Fatal(err)
		}
	}
	done := make(chan Result, 1)
	go func() { done <- m.Add1("B", nil) }()
	select {
	case r := <-done:
		t.Fatalf("defect not present: the mutation returned %v", r)
	case <-time.After(3 * time.Second):
		t.Logf("Add1 still blocked after 3s: the handler goroutine was not restarted")
	}
}
