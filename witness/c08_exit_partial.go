package machine

import (
	"context"
	"testing"
)

type verifExitVeto struct{}

func (h *verifExitVeto) BExit(e *Event) bool { return false }

// Witness for the C07/C08 finding: in an auto mutation, an Auto state that is
// being deactivated and whose Exit handler vetoes takes the partial-acceptance
// branch of emitExitEvents, which looks the exiting state up in the target
// (index -1) and panics in slices.Delete; the panic escapes to the caller of
// the mutation. PASSES while the defect is present.
func TestVerifWitnessExitPartialPanic(t *testing.T) {
	schema := Schema{
		"X": {},
		"C": {},
		"A": {Auto: true, Require: S{"X"}, Remove: S{"B"}},
		"B": {Auto: true},
	}
	m := New(context.Background(), schema, nil)
	defer m.Dispose()
	if err := m.VerifyStates(S{"X", "C", "A", "B", StateException}); err != nil {
		t.Fatal(err)
	}
	if _, err := m.BindHandlers(&verifExitVeto{}); err != nil {
		t.Fatal(err)
	}
	m.Add1("C", nil) // auto mutation activates B (A lacks X)
	if !m.Is1("B") {
		t.Fatalf("setup: B should be active, got %s", m.String())
	}
	panicked := false
	func() {
		defer func() {
			if r := recover(); r != nil {
				panicked = true
			}
		}()
		m.Add1("X", nil) // auto mutation calls A, which Removes B; BExit vetoes
	}()
	if !panicked {
		t.Fatalf("defect not present: no panic escaped to the caller (%s)", m.String())
	}
}
