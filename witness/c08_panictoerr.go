package machine

import (
	"context"
	"strings"
	"testing"
)

// Witness for the PanicToErr defect (C08): for a panic value that is not an error
// the else-branch formats the (nil) result of the failed type assertion instead
// of the recovered value, so the Exception carries "<nil>" / "%!v(...)" instead of
// the panic's message. PASSES while the defect is present.
func TestVerifWitnessPanicToErrMessage(t *testing.T) {
	ctx, cancel := context.WithCancel(context.Background())
	defer cancel()
	m := New(ctx, Schema{"A": {}}, nil)
	func() {
		defer m.PanicToErr(nil)
		panic("boom-string")
	}()
	if !m.IsErr() {
		t.Fatalf("not the scenario: Exception not active")
	}
	if m.Err() != nil && strings.Contains(m.Err().Error(), "boom-string") {
		t.Fatalf("defect not present: Err() carries the panic message: %v", m.Err())
	}
	t.Logf("Err() = %v (panic message lost)", m.Err())
}
