package rpc

import (
	"testing"

	am "github.com/pancsta/asyncmachine-go/pkg/machine"
)

// Witness for the genDeepUpdate first-push / grown-schema defect (C10):
// with syncSchema and a tracked subset, the first-push branch tests
// now[trackedIdx] instead of now[pushedIdx]. The test PASSES while the defect
// is present.
func TestVerifWitnessDeepFirstPush(t *testing.T) {
	// source has 3 states, only index 2 is tracked; its tick is 5, state 0 has tick 0
	data := &tracerData{
		mTime:       am.Time{0, 7, 5},
		tracked:     am.S{"C"},
		trackedIdxs: []int{2},
	}
	last := &tracerData{}
	idxs, ticks := genDeepUpdate(true, data, last)
	// correct: idxs == [2], ticks == [5]; defective: change dropped
	if len(idxs) == 1 && idxs[0] == 2 && ticks[0] == 5 {
		t.Fatalf("defect not present: update is correct %v %v", idxs, ticks)
	}
}
