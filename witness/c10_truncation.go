package rpc

import (
	"testing"

	am "github.com/pancsta/asyncmachine-go/pkg/machine"
)

// Witnesses for the wire-format truncation findings (C10). Each test PASSES
// while the defect is present.

func verifWitnessRoundtrip(now, prev *tracerData) (am.Time, uint64, uint32, *MsgSrvUpdate) {
	u := calcUpdate(false, now, prev, false)
	c := &Client{}
	mirror := am.Time{}
	if prev.mTime != nil {
		mirror = append(mirror, prev.mTime...)
	}
	for len(mirror) < len(now.mTime) {
		mirror = append(mirror, 0)
	}
	a, q, m := c.clockFromUpdate(u, mirror, prev.queueTick, prev.machTick)
	return a, q, m, u
}

// queue-tick diff of exactly 2^16 is sent as 0: the client's queue tick is
// wrong and the checksum (multiple of 256) does not notice.
func TestVerifWitnessQueueTickTruncation(t *testing.T) {
	prev := &tracerData{mTime: am.Time{1}, tracked: am.S{"A"}, trackedIdxs: []int{0}, queueTick: 5}
	now := &tracerData{mTime: am.Time{1}, tracked: am.S{"A"}, trackedIdxs: []int{0}, queueTick: 5 + 65536}
	now.checksum = Checksum(now.mTime.Sum(nil), now.queueTick, now.machTick)
	a, q, m, u := verifWitnessRoundtrip(now, prev)
	if q == now.queueTick {
		t.Fatalf("defect not present: queue tick restored")
	}
	if Checksum(a.Sum(nil), q, m) != u.Checksum {
		t.Fatalf("checksum did notice the truncation")
	}
}

// tick diff of 2^32 is sent as 0.
func TestVerifWitnessTickTruncation(t *testing.T) {
	prev := &tracerData{mTime: am.Time{1}, tracked: am.S{"A"}, trackedIdxs: []int{0}}
	now := &tracerData{mTime: am.Time{1 + 1<<32}, tracked: am.S{"A"}, trackedIdxs: []int{0}}
	now.checksum = Checksum(now.mTime.Sum(nil), now.queueTick, now.machTick)
	a, q, m, u := verifWitnessRoundtrip(now, prev)
	if a[0] == now.mTime[0] {
		t.Fatalf("defect not present: tick restored")
	}
	if Checksum(a.Sum(nil), q, m) != u.Checksum {
		t.Fatalf("checksum did notice the truncation")
	}
}

// machine-tick diff of 2^8 is sent as 0.
func TestVerifWitnessMachTickTruncation(t *testing.T) {
	prev := &tracerData{mTime: am.Time{1}, tracked: am.S{"A"}, trackedIdxs: []int{0}, machTick: 1}
	now := &tracerData{mTime: am.Time{1}, tracked: am.S{"A"}, trackedIdxs: []int{0}, machTick: 257}
	now.checksum = Checksum(now.mTime.Sum(nil), now.queueTick, now.machTick)
	a, q, m, u := verifWitnessRoundtrip(now, prev)
	if m == now.machTick {
		t.Fatalf("defect not present: machine tick restored")
	}
	if Checksum(a.Sum(nil), q, m) != u.Checksum {
		t.Fatalf("checksum did notice the truncation")
	}
}
