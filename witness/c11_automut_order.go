package machine

import (
	"context"
	"testing"
)

// Witness for the C11/C07 finding: NewAutoMutation collects the Auto states in
// Go map iteration order and the resolver is order-sensitive, so the same
// schema and the same mutation give different results on different runs.
// PASSES while the defect is present (two outcomes observed in 200 runs).
func TestVerifWitnessAutoMutOrder(t *testing.T) {
	schema := Schema{
		"A": {Auto: true, Remove: S{"B"}},
		"B": {Auto: true, Remove: S{"A"}},
		"C": {},
	}
	names := S{"A", "B", "C", StateException}
	outcomes := map[string]int{}
	for i := 0; i < 200; i++ {
		m := New(context.Background(), schema, nil)
		if err := m.VerifyStates(names); err != nil {
			t.Fatal(err)
		}
		m.Add1("C", nil)
		outcomes[m.String()]++
		m.Dispose()
	}
	if len(outcomes) < 2 {
		t.Fatalf("defect not present: single outcome %v", outcomes)
	}
}
