package machine

import (
	"context"
	"strings"
	"testing"
)

// Witness for the resolver-order defect (C11): graph.TopologicalSort starts its
// depth-first walks from the keys of a map, so the Require-topology used to
// sort every target differs between runs whenever two states are not ordered by
// Require. PASSES while the defect is present (two different orders in 64
// re-executions of the same mutation on the same schema).
func TestVerifWitnessTopologyOrder(t *testing.T) {
	seen := map[string]int{}
	for i := 0; i < 64; i++ {
		ctx, cancel := context.WithCancel(context.Background())
		m := New(ctx, Schema{
			"A": {Require: S{"C"}}, "B": {Require: S{"C"}}, "C": {}, "D": {},
		}, nil)
		m.Add(S{"A", "B", "C", "D"}, nil)
		seen[strings.Join(m.ActiveStates(nil), ",")]++
		cancel()
	}
	if len(seen) < 2 {
		t.Fatalf("defect not present: one order in 64 runs: %v", seen)
	}
	t.Logf("orders seen: %v", seen)
}
