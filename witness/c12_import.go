package machine

import (
	"context"
	"sync"
	"testing"
	"time"
)

// Witness for the Import lock defect (C12): Import replaces activeStates and
// writes the clock while holding activeStatesMx for READING only, so it races
// with every reader (Is, Tick, ...). Run with -race.
func TestVerifWitnessImportRace(t *testing.T) {
	for i := 0; i < 40; i++ {
		ctx, cancel := context.WithCancel(context.Background())
		m := New(ctx, Schema{"A": {}, "B": {}}, &Opts{Id: "imp"})
		_ = m.VerifyStates(S{"A", "B", StateException})
		m.Add1("A", nil)
		data, _, err := m.Export()
		if err != nil {
			t.Fatal(err)
		}
		var wg sync.WaitGroup
		wg.Add(2)
		go func() {
			defer wg.Done()
			for k := 0; k < 50; k++ {
				_ = m.Import(data)
			}
		}()
		go func() {
			defer wg.Done()
			for k := 0; k < 200; k++ {
				_ = m.Is1("A")
				_ = m.Tick("A")
			}
		}()
		wg.Wait()
		cancel()
	}
}

// Witness for the Import deadlock (C17 / C13): with a schema that defines
// MachineRestored, Import calls Add1 while still holding schemaMx for writing
// and queueMx / activeStatesMx for reading; the mutation needs those locks, so
// Import never returns. PASSES while the defect is present.
func TestVerifWitnessImportRestoredDeadlock(t *testing.T) {
	ctx, cancel := context.WithCancel(context.Background())
	defer cancel()
	m := New(ctx, Schema{"A": {}, StateMachineRestored: {}}, &Opts{Id: "imp2"})
	if err := m.VerifyStates(S{"A", StateMachineRestored, StateException}); err != nil {
		t.Fatal(err)
	}
	m.Add1("A", nil)
	data, _, err := m.Export()
	if err != nil {
		t.Fatal(err)
	}
	done := make(chan struct{})
	go func() {
		_ = m.Import(data)
		close(done)
	}()
	select {
	case <-done:
		t.Fatalf("defect not present: Import returned")
	case <-time.After(2 * time.Second):
		t.Logf("Import still blocked after 2s")
	}
}
