package rpc

import (
	"context"
	"sync"
	"sync/atomic"
	"testing"

	am "github.com/pancsta/asyncmachine-go/pkg/machine"
)

// C12, second sentence: a network machine that is receiving clock updates while being
// read. Bounded family: one updater (ticks growing, the queue tick periodically falling
// back, as after a restart of the source) and reader goroutines over the public readers
// and waiters. Oracle: the Go race detector (run with -race).
func TestVerifC12NetMachReaders(t *testing.T) {
	ctx := context.Background()
	parent := am.New(ctx, am.Schema{"A": {}}, nil)
	names := am.S{"A", "B", am.StateException}
	schema := am.Schema{"A": {}, "B": {}, am.StateException: {}}
	nm, nmInt, err := NewNetworkMachine(ctx, "nm-verif", nil, schema, names, parent, nil, false)
	if err != nil {
		t.Fatal(err)
	}
	const rounds = 1500
	var wg sync.WaitGroup
	var stop atomic.Bool
	start := make(chan struct{})
	wg.Add(1)
	go func() {
		defer wg.Done()
		defer stop.Store(true)
		<-start
		for i := 0; i < rounds; i++ {
			now := am.Time{uint64(i + 1), uint64(i / 2), 0}
			nmInt.Lock()
			nmInt.UpdateClock(now, uint64(10+i%3), 0)
		}
	}()
	readers := []func(){
		func() { _ = nm.Is1("A"); _ = nm.Not1("B"); _ = nm.Any1("A", "B") },
		func() { _ = nm.Tick("A"); _ = nm.Time(nil); _ = nm.Clock(nil) },
		func() { _ = nm.ActiveStates(nil); _ = nm.String(); _ = nm.QueueTick(); _ = nm.MachineTick() },
		func() { _ = nm.When1("A", nil); _ = nm.WhenNot1("A", nil); _ = nm.WhenTime1("B", 1<<40, nil) },
		func() { <-nm.WhenQueue(am.Result(12)) },
		func() { c := nm.NewStateCtx("A"); _ = c.Err(); _ = nm.StateNames(); _ = nm.Schema() },
	}
	for _, r := range readers {
		r := r
		wg.Add(1)
		go func() {
			defer wg.Done()
			<-start
			for !stop.Load() {
				r()
			}
		}()
	}
	close(start)
	wg.Wait()
	nmInt.Lock()
	nmInt.UpdateClock(am.Time{rounds + 1, rounds, 0}, 12, 0)
}
