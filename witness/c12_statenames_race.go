package machine

import (
	"context"
	"sync"
	"testing"
)

// Witness for the StateNames defect (C12): the lazily built shared copy
// stateNamesExport is written while only the READ lock of schemaMx is held, so
// two first-time callers race on the write. Run with -race: the race detector
// reports the race while the defect is present.
func TestVerifWitnessStateNamesRace(t *testing.T) {
	for i := 0; i < 200; i++ {
		m := New(context.Background(), Schema{"A": {}, "B": {}}, nil)
		var wg sync.WaitGroup
		for g := 0; g < 4; g++ {
			wg.Add(1)
			go func() {
				defer wg.Done()
				_ = m.StateNames()
			}()
		}
		wg.Wait()
		m.Dispose()
	}
}

// Witness for the Clock(nil) defect (C12): Clock reads m.stateNames under
// activeStatesMx only, while SetSchema/verifyStates replaces it under schemaMx.
func TestVerifWitnessClockNamesRace(t *testing.T) {
	for i := 0; i < 60; i++ {
		m := New(context.Background(), Schema{"A": {}, "B": {}}, nil)
		var wg sync.WaitGroup
		wg.Add(2)
		go func() {
			defer wg.Done()
			_ = m.SetSchema(Schema{"A": {}, "B": {}, "C": {}, StateException: {Multi: true}}, S{"A", "B", StateException, "C"})
		}()
		go func() {
			defer wg.Done()
			for k := 0; k < 100; k++ {
				_ = m.Clock(nil)
			}
		}()
		wg.Wait()
		m.Dispose()
	}
}

func verifWitnessRaceWithSetSchema(reader func(m *Machine)) {
	for i := 0; i < 60; i++ {
		m := New(context.Background(), Schema{"A": {}, "B": {}}, nil)
		var wg sync.WaitGroup
		wg.Add(2)
		go func() {
			defer wg.Done()
			_ = m.SetSchema(Schema{"A": {}, "B": {}, "C": {}, StateException: {Multi: true}}, S{"A", "B", StateException, "C"})
		}()
		go func() {
			defer wg.Done()
			for k := 0; k < 100; k++ {
				reader(m)
			}
		}()
		wg.Wait()
		m.Dispose()
	}
}

// Has reads m.stateNames with no lock at all.
func TestVerifWitnessHasNamesRace(t *testing.T) {
	verifWitnessRaceWithSetSchema(func(m *Machine) { _ = m.Has(S{"A"}) })
}

// IsTime(t, nil) reads m.stateNames under activeStatesMx only.
func TestVerifWitnessIsTimeNamesRace(t *testing.T) {
	verifWitnessRaceWithSetSchema(func(m *Machine) { _ = m.IsTime(Time{0}, nil) })
}

// Is -> is reads m.stateNames under activeStatesMx only.
func TestVerifWitnessIsNamesRace(t *testing.T) {
	verifWitnessRaceWithSetSchema(func(m *Machine) { _ = m.Is(S{"A"}) })
}

// Witness for the VerifyStates defect (C12): the public VerifyStates replaces
// m.stateNames (and resets the shared copy) while holding schemaMx for READING
// only, so it races with every reader that also holds the read lock
// (StateNames, Index, ...) and with another VerifyStates.
func TestVerifWitnessVerifyStatesRace(t *testing.T) {
	for i := 0; i < 100; i++ {
		m := New(context.Background(), Schema{"A": {}, "B": {}}, nil)
		var wg sync.WaitGroup
		wg.Add(2)
		go func() {
			defer wg.Done()
			for k := 0; k < 20; k++ {
				_ = m.VerifyStates(S{"A", "B", StateException})
			}
		}()
		go func() {
			defer wg.Done()
			for k := 0; k < 100; k++ {
				_ = m.StateNames()
			}
		}()
		wg.Wait()
		m.Dispose()
	}
}
