package history

import (
	"context"
	"testing"
	"time"

	am "github.com/pancsta/asyncmachine-go/pkg/machine"
)

// Witness for the Deactivated defect (C17): the oldest record of the in-memory
// log has no predecessor, and FindLatest then counted every state that is
// inactive in it as "deactivated during the transition" - DeactivatedBetween
// answers true for a state that has never been active (the SQL backend answers
// false: its Deactivated flag needs a previous record).
// PASSES while the defect is present.
func TestVerifWitnessDeactivatedWithoutPredecessor(t *testing.T) {
	ctx := context.Background()
	m := am.New(ctx, am.Schema{"A": {}, "C": {}}, &am.Opts{Id: "w-c17"})
	mem, err := NewMemory(ctx, nil, m, Config{TrackedStates: am.S{"A", "C"}}, func(err error) { t.Fatal(err) })
	if err != nil {
		t.Fatal(err)
	}
	m.Add1("A", nil) // the only transition: C was never active
	got, err := mem.FindLatest(ctx, false, 0, Query{Deactivated: am.S{"C"}})
	if err != nil {
		t.Fatal(err)
	}
	between := mem.DeactivatedBetween(ctx, "C", time.Now().Add(-time.Hour), time.Now().Add(time.Hour))
	if len(got) == 0 && !between {
		t.Fatalf("defect not present: no record reports C as deactivated")
	}
	t.Logf("FindLatest(Deactivated{C}) returned %d record(s), DeactivatedBetween(C) = %v although C was never active", len(got), between)
}
