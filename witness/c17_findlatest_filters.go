package history

import (
	"context"
	"testing"
	"time"

	am "github.com/pancsta/asyncmachine-go/pkg/machine"
)

// Witness for the FindLatest defect (C17): the state conditions of a query
// (Active / Activated / Inactive / Deactivated) `continue` only their own inner
// loop, so they never exclude a record. PASSES while the defect is present: a
// query for records where B is active returns a record in which B is inactive.
func TestVerifWitnessFindLatestStateFilters(t *testing.T) {
	ctx := context.Background()
	mach := am.New(ctx, am.Schema{"A": {}, "B": {}}, nil)
	defer mach.Dispose()
	mem, err := NewMemory(ctx, nil, mach, BaseConfig{TrackedStates: am.S{"A", "B"}}, nil)
	if err != nil {
		t.Fatal(err)
	}
	mach.Add1("A", nil) // the only record: A active, B inactive
	time.Sleep(10 * time.Millisecond)
	recs, err := mem.FindLatest(ctx, false, 0, Query{Active: am.S{"B"}})
	if err != nil {
		t.Fatal(err)
	}
	if len(recs) == 0 {
		t.Fatalf("defect not present: no record has B active and none was returned")
	}
	idx := mem.Index1("B")
	for _, r := range recs {
		if am.IsActiveTick(r.Time.MTimeTracked[idx]) {
			t.Fatalf("not the scenario: B active in a returned record")
		}
	}
	t.Logf("Query{Active:[B]} returned %d record(s) in which B is inactive", len(recs))
}
