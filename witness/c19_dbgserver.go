package states

import "testing"

// Witness for the C19 finding: the debugger's ServerSchema references Start,
// which it does not define. PASSES while that is the case.
func TestVerifWitnessDbgServerRefs(t *testing.T) {
	n := 0
	for _, st := range ServerSchema {
		for _, rel := range [][]string{st.Require, st.Add, st.Remove, st.After} {
			for _, target := range rel {
				if _, ok := ServerSchema[target]; !ok && target != "Exception" {
					n++
				}
			}
		}
	}
	if n == 0 {
		t.Fatalf("finding not present: all references of ServerSchema are defined")
	}
}
