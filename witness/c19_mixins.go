package states

import (
	"testing"

	am "github.com/pancsta/asyncmachine-go/pkg/machine"
)

// Witness for the C19 finding: the mixin schemas ConnectedSchema,
// ConnPoolSchema and DisposedSchema reference states (Start) that they do not
// define; they are documented as requiring those states from the schema they
// are merged into. PASSES while that is the case.
func verifUndefinedRefs(schema map[string][][]string) []string {
	var out []string
	for name, rels := range schema {
		for _, rel := range rels {
			for _, target := range rel {
				if _, ok := schema[target]; !ok && target != "Exception" {
					out = append(out, name+"->"+target)
				}
			}
		}
	}
	return out
}

func TestVerifWitnessMixinRefs(t *testing.T) {
	for label, s := range map[string]am.Schema{"Connected": ConnectedSchema, "ConnPool": ConnPoolSchema, "Disposed": DisposedSchema} {
		flat := map[string][][]string{}
		for n, st := range s {
			flat[n] = [][]string{st.Require, st.Add, st.Remove, st.After}
		}
		if len(verifUndefinedRefs(flat)) == 0 {
			t.Fatalf("finding not present for %s: all references are defined", label)
		}
	}
}
