package helpers

import (
	"context"
	"testing"
	"time"

	am "github.com/pancsta/asyncmachine-go/pkg/machine"
)

// Witness for the CantRemove defect (C20): CantRemove answered the opposite of
// CantAdd / CantRemove1 (it returned the "accepted" flag instead of its
// negation), so AskRemove refused every removal that was possible.
// PASSES while the defect is present.
func TestVerifWitnessCantRemoveInverted(t *testing.T) {
	m := am.New(context.Background(), am.Schema{"A": {}}, &am.Opts{Id: "w-c20b"})
	m.Add1("A", nil)
	cant := CantRemove(m, am.S{"A"}, nil)
	cant1 := CantRemove1(m, "A", nil)
	res := AskRemove1(m, "A", nil)
	if !cant && res != am.Canceled {
		t.Fatalf("defect not present: CantRemove=%v AskRemove1=%v A active=%v", cant, res, m.Is1("A"))
	}
	t.Logf("CantRemove=%v (CantRemove1=%v) for a removable state; AskRemove1=%v, A still active=%v", cant, cant1, res, m.Is1("A"))
}

// Witness for the blocking Cant* helpers (C20): on a disposed machine CanAdd /
// CanRemove return Canceled at once and nobody closes ACheck.CheckDone, so
// CantAdd / CantRemove (and AskAdd / AskRemove) never return.
// PASSES while the defect is present.
func TestVerifWitnessCantAddBlocksOnDisposed(t *testing.T) {
	m := am.New(context.Background(), am.Schema{"A": {}}, &am.Opts{Id: "w-c20c"})
	m.Dispose()
	<-m.WhenDisposed()
	done := make(chan bool, 1)
	go func() { done <- CantAdd(m, am.S{"A"}, nil) }()
	select {
	case v := <-done:
		t.Fatalf("defect not present: CantAdd returned %v", v)
	case <-time.After(2 * time.Second):
		t.Logf("CantAdd on a disposed machine still blocked after 2s")
	}
}
