package machine

import (
	"context"
	"os"
	"os/exec"
	"runtime/debug"
	"strings"
	"testing"
)

// Witness for the DetachHandlers defect (C20): the deprecated alias calls
// itself instead of HandlersDetach, so any call overflows the stack and kills
// the process. The call is made in a child process (a stack overflow is fatal,
// not a panic). PASSES while the defect is present.
func TestVerifWitnessDetachHandlersRecursion(t *testing.T) {
	if os.Getenv("VERIF_WITNESS_CHILD") == "1" {
		debug.SetMaxStack(1 << 20)
		m := New(context.Background(), Schema{"A": {}}, nil)
		id, err := m.HandlersBindMaps(nil, map[string]HandlerFinal{"AState": func(e *Event) {}})
		if err != nil {
			t.Fatal(err)
		}
		_ = m.DetachHandlers(id)
		return
	}
	cmd := exec.Command(os.Args[0], "-test.run=^TestVerifWitnessDetachHandlersRecursion$")
	cmd.Env = append(os.Environ(), "VERIF_WITNESS_CHILD=1")
	out, err := cmd.CombinedOutput()
	if err == nil {
		t.Fatalf("defect not present: DetachHandlers returned")
	}
	if !strings.Contains(string(out), "stack") {
		t.Fatalf("child failed for another reason: %s", out)
	}
	t.Logf("DetachHandlers killed the process: %s", strings.SplitN(string(out), "\n", 2)[0])
}
