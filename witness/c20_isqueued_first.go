package machine

import (
	"context"
	"testing"
)

// Witness for the IsQueued(PositionFirst) defect (C20): with an empty queue the
// window iter[0:1] is taken past the length of the queue, which panics for a
// fresh machine (nil queue). WillBe / WillBeRemoved pass a caller's position
// straight through. PASSES while the defect is present.
func TestVerifWitnessIsQueuedFirstEmpty(t *testing.T) {
	m := New(context.Background(), Schema{"A": {}}, nil)
	defer m.Dispose()
	panicked := func() (p bool) {
		defer func() {
			if recover() != nil {
				p = true
			}
		}()
		m.IsQueued(MutationAdd, S{"A"}, false, false, 0, false, PositionFirst)
		return false
	}()
	if !panicked {
		t.Fatalf("defect not present: IsQueued(PositionFirst) on an empty queue returned")
	}
}
