package machine

import (
	"context"
	"testing"
)

// Witness for the ParseStates defect (C20/C11): with a duplicate in the input
// unknown names are kept. PASSES while the defect is present.
func TestVerifWitnessParseStates(t *testing.T) {
	m := New(context.Background(), Schema{"A": {}, "B": {}}, nil)
	defer m.Dispose()
	got := m.ParseStates(S{"A", "A", "Zzz"})
	for _, s := range got {
		if s == "Zzz" {
			return // defect present
		}
	}
	t.Fatalf("defect not present: %v", got)
}
