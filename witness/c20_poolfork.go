package machine

import (
	"context"
	"fmt"
	"testing"
	"time"
)

// Witness for the PoolFork defect (C20): with no pool registered for the handler
// ("zero pools") PoolFork forks fn but then falls through to the pool counter,
// which is nil: the handler panics (nil pointer dereference) instead of getting
// true. PASSES while the defect is present.
func TestVerifWitnessPoolForkWithoutPool(t *testing.T) {
	ctx := context.Background()
	m := New(ctx, Schema{"A": {}}, &Opts{Id: "w-c20p"})
	var got any
	var ret bool
	done := make(chan struct{})
	fin := map[string]HandlerFinal{"AState": func(e *Event) {
		defer close(done)
		defer func() { got = recover() }()
		ret = m.PoolFork(ctx, e, func() {})
	}}
	if _, err := m.HandlersBindMaps(nil, fin); err != nil {
		t.Fatal(err)
	}
	m.Add1("A", nil)
	select {
	case <-done:
	case <-time.After(3 * time.Second):
		t.Fatal("handler did not run")
	}
	if got == nil && ret {
		t.Fatalf("defect not present: PoolFork returned true")
	}
	t.Logf("PoolFork without a registered pool: returned %v, panic: %v", ret, fmt.Sprint(got))
}
