package helpers

import (
	"context"
	"testing"
	"time"

	am "github.com/pancsta/asyncmachine-go/pkg/machine"
)

// Witness for the RemoveSync defect (C20): on the queued path EvRemoveSync
// returned true on both branches, so a queued removal that was then vetoed
// reported success although the state is still active.
// PASSES while the defect is present.
func TestVerifWitnessRemoveSyncQueuedVeto(t *testing.T) {
	ctx := context.Background()
	m := am.New(ctx, am.Schema{"A": {}, "B": {}}, &am.Opts{Id: "w-c20"})
	entered, release := make(chan struct{}), make(chan struct{})
	neg := map[string]am.HandlerNegotiation{"AExit": func(e *am.Event) bool { return false }}
	fin := map[string]am.HandlerFinal{"BState": func(e *am.Event) { close(entered); <-release }}
	if _, err := m.HandlersBindMaps(neg, fin); err != nil {
		t.Fatal(err)
	}
	m.HandlerTimeout = 5 * time.Second
	m.Add1("A", nil)
	go m.Add1("B", nil) // keeps the queue busy
	<-entered
	res := make(chan bool, 1)
	go func() { res <- Remove1Sync(ctx, m, "A") }() // queued behind B, then vetoed by AExit
	time.Sleep(50 * time.Millisecond)
	close(release)
	select {
	case ok := <-res:
		if !m.Is1("A") {
			t.Fatalf("scenario broken: A was removed")
		}
		if !ok {
			t.Fatalf("defect not present: Remove1Sync reported false for a vetoed removal")
		}
		t.Logf("Remove1Sync returned true although A is still active (the removal was vetoed)")
	case <-time.After(5 * time.Second):
		t.Fatalf("Remove1Sync did not return")
	}
}
