package machine

import "testing"

// Witness for the SRem / S.Delete defect (C20): the outer loop starts at 1, so
// the first (and for S.Delete1 the only) list is never removed. PASSES while
// the defect is present.
func TestVerifWitnessSRem(t *testing.T) {
	got := S{"A", "B", "C"}.Delete(S{"B"})
	if len(got) == 2 && got[0] == "A" && got[1] == "C" {
		t.Fatalf("defect not present: Delete removed B: %v", got)
	}
	got1 := S{"A", "B", "C"}.Delete1("B")
	if len(got1) == 2 {
		t.Fatalf("defect not present: Delete1 removed B: %v", got1)
	}
}
