package machine

import (
	"fmt"
	"testing"
)

// Witness (C20): Event.Export tests the machine for nil the wrong way round:
// an event without a machine panics (nil pointer dereference).
// PASSES while the defect is present.
func TestVerifWitnessEventExportWithoutMachine(t *testing.T) {
	var got any
	func() {
		defer func() { got = recover() }()
		_ = (&Event{Name: "AState", MachineId: "m1"}).Export()
	}()
	if got == nil {
		t.Fatalf("defect not present: Export returned")
	}
	t.Logf("Export of an event without a machine panicked: %v", got)
}

// Witness (C20): Time.Equal in non-strict mode indexes the second time with the
// first one's positions: a shorter second time panics (index out of range).
// PASSES while the defect is present.
func TestVerifWitnessTimeEqualShorter(t *testing.T) {
	var got any
	func() {
		defer func() { got = recover() }()
		_ = Time{1, 2}.Equal(false, Time{1})
	}()
	if got == nil {
		t.Fatalf("defect not present: Equal returned")
	}
	t.Logf("Time{1,2}.Equal(false, Time{1}) panicked: %v", got)
}

// Witness (C20): Time.ActiveStates ignores its idxs argument ("when idxs isn't
// nil, only the passed indexes are considered"). PASSES while the defect is present.
func TestVerifWitnessTimeActiveStatesIgnoresIdxs(t *testing.T) {
	got := fmt.Sprint(Time{1, 0, 1}.ActiveStates([]int{0}))
	if got == "[0]" {
		t.Fatalf("defect not present")
	}
	t.Logf("Time{1,0,1}.ActiveStates([]int{0}) = %s, expected [0]", got)
}
