package helpers

import (
	"context"
	"fmt"
	"testing"
	"time"

	am "github.com/pancsta/asyncmachine-go/pkg/machine"
)

// Witness for the WaitForErrAny defect (C20): the select case meant for the
// machine's WhenErr channel listens on the timeout channel a second time, so an
// error during the wait is never noticed (the call runs into the timeout), and
// on a timeout the helper returns mach.Err() = nil in about half of the runs.
// PASSES while the defect is present.
func TestVerifWitnessWaitForErrAnyIgnoresErr(t *testing.T) {
	m := am.New(context.Background(), am.Schema{"A": {}}, &am.Opts{Id: "w-c20w"})
	go func() { time.Sleep(20 * time.Millisecond); m.AddErr(fmt.Errorf("boom"), nil) }()
	start := time.Now()
	err := WaitForErrAny(context.Background(), time.Second, m, make(chan struct{}))
	if time.Since(start) < 500*time.Millisecond && err != nil {
		t.Fatalf("defect not present: returned %v after %v", err, time.Since(start))
	}
	t.Logf("the machine's error 20ms into the wait was not noticed: returned %v after %v", err, time.Since(start).Round(time.Millisecond))
}
